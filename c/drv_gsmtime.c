/* C19 driver: links the unmodified in-tree gsm_utils.c and firmware sync.c.
 * Reference decomposition is written here with / and % from the definition
 * (T1 = FN div 1326, T2 = FN mod 26, T3 = FN mod 51, TC = (FN div 51) mod 8). */
#include <stdint.h>
#include <stdio.h>
#include <stdlib.h>
#include <string.h>
#include <osmocom/gsm/gsm_utils.h>

void l1s_time_inc(struct gsm_time *time, uint32_t delta_fn);

#define HYPER 2715648u
static unsigned long n_eval, n_bad;

static void ref(uint32_t fn, struct gsm_time *r)
{
	r->fn = fn;
	r->t1 = (uint16_t)(fn / 1326u);
	r->t2 = (uint8_t)(fn % 26u);
	r->t3 = (uint8_t)(fn % 51u);
	r->tc = (uint8_t)((fn / 51u) % 8u);
}

static int same(const struct gsm_time *a, const struct gsm_time *b)
{
	return a->fn == b->fn && a->t1 == b->t1 && a->t2 == b->t2 && a->t3 == b->t3 && a->tc == b->tc;
}

static void bad(const char *kind, uint32_t fn, uint32_t delta, const struct gsm_time *got, const struct gsm_time *exp)
{
	if (n_bad++ < 6)
		printf("MISMATCH %s fn=%u delta=%u got=%u/%u/%u/%u/%u exp=%u/%u/%u/%u/%u\n", kind, fn, delta,
		       got->fn, got->t1, got->t2, got->t3, got->tc, exp->fn, exp->t1, exp->t2, exp->t3, exp->tc);
}

int main(int argc, char **argv)
{
	if (argc >= 2 && !strcmp(argv[1], "sweep")) {
		uint32_t lo = strtoul(argv[2], 0, 10), hi = strtoul(argv[3], 0, 10);
		for (uint32_t fn = lo; fn < hi; fn++) {
			struct gsm_time t, r;
			memset(&t, 0xa5, sizeof(t));
			gsm_fn2gsmtime(&t, fn);
			ref(fn, &r);
			n_eval++;
			if (!same(&t, &r))
				bad("fn2gsmtime", fn, 0, &t, &r);
			uint32_t back = gsm_gsmtime2fn(&r);
			n_eval++;
			if (back != fn) {
				struct gsm_time g = r; g.fn = back;
				bad("gsmtime2fn", fn, 0, &g, &r);
			}
			for (int i = 4; i < argc; i++) {
				uint32_t d = strtoul(argv[i], 0, 10);
				struct gsm_time s = r, e;
				l1s_time_inc(&s, d);
				ref((fn + d) % HYPER, &e);
				n_eval++;
				if (!same(&s, &e))
					bad("time_inc", fn, d, &s, &e);
			}
		}
	} else if (argc >= 2 && !strcmp(argv[1], "walk")) {
		/* carry chain: 2715648 successive +1 steps from 0, incl. the wrap, plus one more lap start */
		struct gsm_time s, e;
		ref(0, &s);
		for (uint32_t k = 1; k <= HYPER + 1326; k++) {
			l1s_time_inc(&s, 1);
			ref(k % HYPER, &e);
			n_eval++;
			if (!same(&s, &e)) {
				bad("walk", k - 1, 1, &s, &e);
				s = e; /* resync so that one defect does not flood */
			}
		}
	} else if (argc >= 4 && !strcmp(argv[1], "mixwalk")) {
		/* history: one running time stepped by a generated sequence of deltas (0, 1, small, multiframe-sized, huge),
		 * generator = xorshift seeded from the command line; start frames near the carry points */
		uint64_t x = strtoull(argv[2], 0, 10) * 0x9E3779B97F4A7C15ull + 1;
		unsigned long n = strtoul(argv[3], 0, 10);
		static const uint32_t starts[] = { 0, 25, 50, 1325, 1326 * 2047u + 1300, HYPER - 3, HYPER - 1, 123456 };
		for (unsigned si = 0; si < sizeof(starts) / sizeof(starts[0]); si++) {
			struct gsm_time s, e;
			uint32_t fn = starts[si];
			ref(fn, &s);
			for (unsigned long k = 0; k < n; k++) {
				x ^= x << 13; x ^= x >> 7; x ^= x << 17;
				uint32_t r = (uint32_t)(x >> 20), d;
				switch (r & 7) {
				case 0: d = 0; break;
				case 1: case 2: case 3: d = 1; break;
				case 4: d = 2 + (r >> 3) % 59; break;
				case 5: d = 1326 - 3 + (r >> 3) % 6; break;
				case 6: d = (r >> 3) % HYPER; break;
				default: d = HYPER - 1 - (r >> 3) % 60; break;
				}
				uint32_t before = fn;
				l1s_time_inc(&s, d);
				fn = (fn + d) % HYPER;
				ref(fn, &e);
				n_eval++;
				if (!same(&s, &e)) {
					bad("mixwalk", before, d, &s, &e);
					s = e;
				}
			}
		}
	} else if (argc >= 3 && !strcmp(argv[1], "dump")) {
		FILE *f = fopen(argv[2], "wb");
		if (!f) return 3;
		for (uint32_t fn = 0; fn < HYPER; fn++) {
			struct gsm_time t;
			gsm_fn2gsmtime(&t, fn);
			unsigned char b[5] = { t.t1 >> 8, t.t1 & 0xff, t.t2, t.t3, t.tc };
			fwrite(b, 1, 5, f);
			n_eval++;
		}
		fclose(f);
	} else
		return 2;
	printf("DONE evals=%lu bad=%lu\n", n_eval, n_bad);
	return 0;
}
