/* C20 driver: gsm48_decode_mobile_alloc() sliced verbatim out of the working tree's
 * src/host/layer23/src/common/sysinfo.c (build step writes it to ma_slice.inc).
 * Every buffer the function touches lives in its own exact-size heap block, so ASan reports any overrun.
 *
 * request:  <si4> <len> <hex bitmap or -> <n_ca> a0 a1 ... | <n_pre> p0 p1 ...
 * reply:    R <rc> <hopp_len> h0 h1 ...   and   F <arfcns carrying the HOPP flag>
 */
#include <stdint.h>
#include <stdio.h>
#include <stdlib.h>
#include <string.h>
#include <errno.h>

struct gsm_sysinfo_freq { uint8_t mask; };
#define FREQ_TYPE_SERV 0x01
#define FREQ_TYPE_HOPP 0x02
#define LOGP(ss, lvl, fmt, args...) do { } while (0)
#define DRR 0
#define LOGL_INFO 0
#define LOGL_NOTICE 0

#include "ma_slice.inc"

int main(void)
{
	static char line[16384];
	while (fgets(line, sizeof(line), stdin)) {
		char *p = line;
		int si4 = strtol(p, &p, 10);
		int len = strtol(p, &p, 10);
		while (*p == ' ') p++;
		uint8_t *ma = malloc(len > 0 ? len : 1);
		if (*p == '-') p++;
		else for (int i = 0; i < len; i++) { unsigned v; sscanf(p, "%2x", &v); ma[i] = v; p += 2; }
		struct gsm_sysinfo_freq *freq = calloc(1024, sizeof(*freq));
		int n = strtol(p, &p, 10);
		for (int i = 0; i < n; i++) freq[strtol(p, &p, 10) & 1023].mask |= FREQ_TYPE_SERV | 0x20;
		while (*p == ' ' || *p == '|') p++;
		n = strtol(p, &p, 10);
		for (int i = 0; i < n; i++) freq[strtol(p, &p, 10) & 1023].mask |= FREQ_TYPE_HOPP;
		/* optional: an earlier decode on the same freq[] array ("| len0 hex0"), as when SI4 is received again */
		while (*p == ' ' || *p == '|') p++;
		if (*p && *p != '\n') {
			int len0 = strtol(p, &p, 10);
			while (*p == ' ') p++;
			uint8_t *ma0 = malloc(len0 > 0 ? len0 : 1);
			if (*p == '-') p++;
			else for (int i = 0; i < len0; i++) { unsigned v; sscanf(p, "%2x", &v); ma0[i] = v; p += 2; }
			uint16_t *h0 = malloc(64 * sizeof(uint16_t));
			uint8_t *l0 = malloc(1);
			*l0 = 0;
			gsm48_decode_mobile_alloc(freq, ma0, (uint8_t)len0, h0, l0, si4);
			free(ma0); free(h0); free(l0);
		}
		uint16_t *hopping = malloc(64 * sizeof(uint16_t));
		for (int i = 0; i < 64; i++) hopping[i] = 0xeeee;
		uint8_t *hopp_len = malloc(1);
		*hopp_len = 0xaa;
		int rc = gsm48_decode_mobile_alloc(freq, len > 0 ? ma : ma, (uint8_t)len, hopping, hopp_len, si4);
		printf("R %d %u", rc, *hopp_len);
		for (int i = 0; i < 64; i++) printf(" %u", hopping[i]);
		printf("\nF");
		for (int i = 0; i < 1024; i++) if (freq[i].mask & FREQ_TYPE_HOPP) printf(" %d", i);
		printf("\nS");
		for (int i = 0; i < 1024; i++) if ((freq[i].mask & ~FREQ_TYPE_HOPP) != ((freq[i].mask & FREQ_TYPE_SERV) ? (FREQ_TYPE_SERV | 0x20) : 0)) printf(" %d", i);
		printf("\nEND\n");
		fflush(stdout);
		free(ma); free(freq); free(hopping); free(hopp_len);
	}
	return 0;
}
