/* C11 driver (firmware side): unmodified layer1/mframe_sched.c.  The driver owns l1s, defines the TDMA item
 * sets the tables refer to (distinguished by address) and records every tdma_schedule_set() call.
 * For each task 0..28 and every FN of a full 51x26x8 cycle: enable only that task, set the current frame,
 * run mframe_schedule(), print the triggers: "T task fn set p3 frame_offset". */
#include <stdint.h>
#include <stdio.h>
#include <stdlib.h>
#include <string.h>
#include <layer1/sync.h>
#include <layer1/tdma_sched.h>
#include <layer1/mframe_sched.h>

struct l1s_state l1s;

int tdma_end_set(uint8_t p1, uint8_t p2, uint16_t p3) { return 0; }
const struct tdma_sched_item nb_sched_set[1], nb_sched_set_ul[1], neigh_pm_sched_set[1], tch_sched_set[1], tch_a_sched_set[1], tch_d_sched_set[1];

static int cur_task;
static uint32_t cur_fn;

int tdma_schedule_set(uint8_t frame_offset, const struct tdma_sched_item *item_set, uint16_t p3)
{
	const char *name = item_set == nb_sched_set ? "NB_DL" : item_set == nb_sched_set_ul ? "NB_UL" :
		item_set == neigh_pm_sched_set ? "NEIGH_PM" : item_set == tch_sched_set ? "TCH" :
		item_set == tch_a_sched_set ? "TCH_A" : item_set == tch_d_sched_set ? "TCH_D" : "?";
	printf("T %d %u %s %u %u\n", cur_task, cur_fn, name, p3, frame_offset);
	/* number of frames the set occupies, as the real sets report it */
	return item_set == nb_sched_set || item_set == nb_sched_set_ul ? 5 : 3;
}

int main(int argc, char **argv)
{
	uint32_t cycle = 51 * 26 * 8;
	static char obuf[1 << 20];
	setvbuf(stdout, obuf, _IOFBF, sizeof(obuf));
	for (cur_task = 0; cur_task <= MF_TASK_UL_ALL_NB; cur_task++) {
		for (cur_fn = 0; cur_fn < cycle; cur_fn++) {
			mframe_reset();
			mframe_enable(cur_task);
			gsm_fn2gsmtime(&l1s.current_time, cur_fn);
			mframe_schedule();
		}
		printf("C %d 0x%02x\n", cur_task, mframe_task2chan_nr(cur_task, 5));
	}
	/* continuous operation: a set of tasks enabled once, then one mframe_schedule() per consecutive frame without
	 * resetting anything in between (as the L1 does): "W <combination> ..." lines carry the same trigger records */
	static const uint32_t combos[] = {
		(1u << MF_TASK_BCCH_NORM) | (1u << MF_TASK_CCCH),
		(1u << MF_TASK_BCCH_NORM) | (1u << MF_TASK_CCCH_COMB) | (1u << MF_TASK_SDCCH4_0) | (1u << MF_TASK_SDCCH4_3),
		(1u << MF_TASK_SDCCH8_3) | (1u << MF_TASK_SDCCH8_5) | (1u << MF_TASK_SDCCH8_CBCH),
		(1u << MF_TASK_TCH_F_EVEN), (1u << MF_TASK_TCH_H_1) | (1u << MF_TASK_NEIGH_PM26O), (1u << MF_TASK_GPRS_PDTCH),
		0x1fffffffu,
	};
	for (unsigned c = 0; c < sizeof(combos) / sizeof(combos[0]); c++) {
		uint32_t start = 2715648u - 3000u;     /* across the hyperframe wrap */
		mframe_reset();
		mframe_set(combos[c]);
		printf("W %u 0x%08x %u\n", c, combos[c], start);
		for (uint32_t k = 0; k < cycle + 3000u; k++) {
			cur_fn = (start + k) % 2715648u;
			cur_task = -1 - (int)c;            /* trigger lines of this walk carry task = -1 - combination */
			gsm_fn2gsmtime(&l1s.current_time, cur_fn);
			mframe_schedule();
		}
	}
	printf("DONE %u\n", cycle);
	return 0;
}
