/* C11 driver (firmware side): unmodified layer1/mframe_sched.c.  The driver owns l1s, defines the TDMA item
 * sets the tables refer to (distinguished by address) and records every tdma_schedule_set() call.
 * For each task 0..28 and every FN of a full 51x26x8 cycle: enable only that task, set the current frame,
 * run mframe_schedule(), print the triggers: "T task fn set p3 frame_offset". */
#include <stdint.h>
#include <stdio.h>
#include <stdlib.h>
#include <string.h>
#include <layer1/sync.h>
#include <layer1/tdma_sched.h>
#include <layer1/mframe_sched.h>

struct l1s_state l1s;

int tdma_end_set(uint8_t p1, uint8_t p2, uint16_t p3) { return 0; }
const struct tdma_sched_item nb_sched_set[1], nb_sched_set_ul[1], neigh_pm_sched_set[1], tch_sched_set[1], tch_a_sched_set[1], tch_d_sched_set[1];

static int cur_task;
static uint32_t cur_fn;

int tdma_schedule_set(uint8_t frame_offset, const struct tdma_sched_item *item_set, uint16_t p3)
{
	const char *name = item_set == nb_sched_set ? "NB_DL" : item_set == nb_sched_set_ul ? "NB_UL" :
		item_set == neigh_pm_sched_set ? "NEIGH_PM" : item_set == tch_sched_set ? "TCH" :
		item_set == tch_a_sched_set ? "TCH_A" : item_set == tch_d_sched_set ? "TCH_D" : "?";
	printf("T %d %u %s %u %u\n", cur_task, cur_fn, name, p3, frame_offset);
	/* number of frames the set occupies, as the real sets report it */
	return item_set == nb_sched_set || item_set == nb_sched_set_ul ? 5 : 3;
}

int main(int argc, char **argv)
{
	uint32_t cycle = 51 * 26 * 8;
	static char obuf[1 << 20];
	setvbuf(stdout, obuf, _IOFBF, sizeof(obuf));
	for (cur_task = 0; cur_task <= MF_TASK_UL_ALL_NB; cur_task++) {
		for (cur_fn = 0; cur_fn < cycle; cur_fn++) {
			mframe_reset();
			mframe_enable(cur_task);
			gsm_fn2gsmtime(&l1s.current_time, cur_fn);
			mframe_schedule();
		}
		printf("C %d 0x%02x\n", cur_task, mframe_task2chan_nr(cur_task, 5));
	}
	printf("DONE %u\n", cycle);
	return 0;
}
