/* C11 driver (trxcon side): unmodified src/host/trxcon/src/sched_mframe.c.  For every channel combination
 * 0.._GSM_PCHAN_MAX-1 and timeslot 0..7: look the layout up, print its header, read frames[fn % period] for every
 * FN of a full 51x26x8 cycle (an out-of-table read is an ASan global-buffer-overflow) and print one table period. */
#include <stdint.h>
#include <stdio.h>
#include <inttypes.h>
#include <osmocom/gsm/gsm_utils.h>
#include <osmocom/bb/l1sched/l1sched.h>

#include <stdlib.h>
int main(int argc, char **argv)
{
	static const struct l1sched_tdma_multiframe *first[64][8];
	static char obuf[1 << 20];
	setvbuf(stdout, obuf, _IOFBF, sizeof(obuf));
	printf("MAX %d %d\n", _GSM_PCHAN_MAX, _L1SCHED_CHAN_MAX);
#define E(x) printf("E %s %d\n", #x, L1SCHED_##x)
	E(IDLE); E(FCCH); E(SCH); E(BCCH); E(RACH); E(CCCH); E(TCHF); E(TCHH_0); E(TCHH_1);
	E(SDCCH4_0); E(SDCCH4_1); E(SDCCH4_2); E(SDCCH4_3);
	E(SDCCH8_0); E(SDCCH8_1); E(SDCCH8_2); E(SDCCH8_3); E(SDCCH8_4); E(SDCCH8_5); E(SDCCH8_6); E(SDCCH8_7);
	E(SACCHTF); E(SACCHTH_0); E(SACCHTH_1); E(SACCH4_0); E(SACCH4_1); E(SACCH4_2); E(SACCH4_3);
	E(SACCH8_0); E(SACCH8_1); E(SACCH8_2); E(SACCH8_3); E(SACCH8_4); E(SACCH8_5); E(SACCH8_6); E(SACCH8_7);
	E(PDTCH); E(PTCCH); E(SDCCH4_CBCH); E(SDCCH8_CBCH);
#define P(x) printf("P %s %d\n", #x, GSM_PCHAN_##x)
	P(NONE); P(CCCH); P(CCCH_SDCCH4); P(CCCH_SDCCH4_CBCH); P(SDCCH8_SACCH8C); P(SDCCH8_SACCH8C_CBCH); P(TCH_F); P(TCH_H); P(PDCH);
	for (int cfg = 0; cfg < _GSM_PCHAN_MAX; cfg++)
	for (int tn = 0; tn < 8; tn++) {
		const struct l1sched_tdma_multiframe *mf = l1sched_mframe_layout(cfg, tn);
		if (cfg < 64) first[cfg][tn] = mf;
		if (!mf) { printf("L %d %d NULL\n", cfg, tn); continue; }
		printf("L %d %d %d %u 0x%02x 0x%016" PRIx64 " %s\n", cfg, tn, mf->chan_config, mf->period, mf->slotmask, mf->lchan_mask, mf->frames ? "frames" : "noframes");
		if (!mf->frames || !mf->period) continue;
		unsigned long sum = 0;
		for (uint32_t fn = 0; fn < 51 * 26 * 8; fn++) {
			const struct l1sched_tdma_frame *f = &mf->frames[fn % mf->period];
			sum += f->dl_chan + f->dl_bid + f->ul_chan + f->ul_bid;
		}
		for (uint32_t fn = 0; fn < mf->period; fn++) {
			const struct l1sched_tdma_frame *f = &mf->frames[fn];
			printf("F %d %d %u %d %u %d %u\n", cfg, tn, fn, f->dl_chan, f->dl_bid, f->ul_chan, f->ul_bid);
		}
		printf("S %d %d %lu\n", cfg, tn, sum);
	}
	/* lookup histories: the answer for (combination, timeslot) must not depend on the lookups made before. Descending order,
	 * each lookup twice, then a generated sequence (xorshift seeded from argv[1]) with runs on one combination / one timeslot */
	unsigned long n_hist = 0, n_bad = 0;
	int pc = -1, pt = -1;
#define LOOK(c, t) do { const struct l1sched_tdma_multiframe *m_ = l1sched_mframe_layout((c), (t)); n_hist++; \
		if (m_ != first[(c)][(t)] && n_bad++ < 5) printf("O %d %d after %d %d\n", (c), (t), pc, pt); pc = (c); pt = (t); } while (0)
	int ncfg = _GSM_PCHAN_MAX < 64 ? _GSM_PCHAN_MAX : 64;
	for (int cfg = ncfg - 1; cfg >= 0; cfg--)
		for (int tn = 7; tn >= 0; tn--) { LOOK(cfg, tn); LOOK(cfg, tn); }
	uint64_t x = (argc > 1 ? strtoull(argv[1], 0, 10) : 1) * 0x9E3779B97F4A7C15ull + 1;
	unsigned long n = argc > 2 ? strtoul(argv[2], 0, 10) : 100000;
	int cfg = 0, tn = 0;
	for (unsigned long k = 0; k < n; k++) {
		x ^= x << 13; x ^= x >> 7; x ^= x << 17;
		uint32_t r = (uint32_t)(x >> 24);
		switch (r & 3) {
		case 0: cfg = (r >> 2) % ncfg; tn = (r >> 10) % 8; break;
		case 1: tn = (r >> 2) % 8; break;                 /* same combination, another timeslot */
		case 2: cfg = (r >> 2) % ncfg; break;             /* same timeslot, another combination */
		default: break;                                   /* the same lookup again */
		}
		LOOK(cfg, tn);
	}
	printf("H %lu %lu\n", n_hist, n_bad);
	printf("DONE\n");
	return 0;
}
