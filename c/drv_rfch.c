/* C07 driver: unmodified firmware rfch.c + in-tree gsm_utils.c.
 * The reference below is TS 45.002 6.2.3 written with / and % and a bit loop
 * for NBIN; it shares only the RNTABLE values (spec table 6) with the code. */
#include <stdint.h>
#include <stdio.h>
#include <stdlib.h>
#include <string.h>
#include <osmocom/gsm/gsm_utils.h>
#include <layer1/sync.h>
#include <layer1/rfch.h>

struct l1s_state l1s;

static const int RN[114] = {
 48, 98, 63, 1, 36, 95, 78, 102, 94, 73, 0, 64, 25, 81, 76, 59, 124, 23, 104, 100,
 101, 47, 118, 85, 18, 56, 96, 86, 54, 2, 80, 34, 127, 13, 6, 89, 57, 103, 12, 74,
 55, 111, 75, 38, 109, 71, 112, 29, 11, 88, 87, 19, 3, 68, 110, 26, 33, 31, 8, 45,
 82, 58, 40, 107, 32, 5, 106, 92, 62, 67, 77, 108, 122, 37, 60, 66, 121, 42, 51, 126,
 117, 114, 4, 90, 43, 52, 53, 113, 120, 72, 16, 49, 7, 79, 119, 61, 22, 84, 9, 97,
 91, 15, 21, 24, 46, 39, 93, 105, 65, 70, 125, 99, 17, 123 };

static int ref_mai(int hsn, int maio, int n, uint32_t fn)
{
	if (hsn == 0)
		return (int)((fn + (uint32_t)maio) % (uint32_t)n);
	int t1r = (int)((fn / 1326u) % 64u), t2 = (int)(fn % 26u), t3 = (int)(fn % 51u);
	int x = 0;
	for (int i = 0; i < 6; i++)
		if (((hsn >> i) % 2) != ((t1r >> i) % 2)) x += 1 << i;
	int m = t2 + RN[x + t3];
	int nb = 0; while ((1 << nb) <= n) nb++;
	int p = 1 << nb;
	int mp = m % p, tp = t3 % p;
	int s = mp < n ? mp : (mp + tp) % n;
	return (s + maio) % n;
}

static unsigned long n_eval, n_bad, n_dev;

/* ARFCN values as the L1 carries them: 10 bit channel number plus the band flag bits (ARFCN_PCS 0x8000, ARFCN_UPLINK 0x4000) */
static uint16_t arfcn_of(int i) { return (uint16_t)((100 + 3 * i) | ((i & 1) ? 0x8000 : 0) | ((i & 2) ? 0x4000 : 0)); }

static void setup(int hsn, int maio, int n)
{
	memset(&l1s.dedicated, 0, sizeof(l1s.dedicated));
	l1s.dedicated.type = GSM_DCHAN_SDCCH_8;
	l1s.dedicated.h = 1;
	l1s.dedicated.h1.hsn = hsn;
	l1s.dedicated.h1.maio = maio;
	l1s.dedicated.h1.n = n;
	for (int i = 0; i < 64; i++)
		l1s.dedicated.h1.ma[i] = i < n ? arfcn_of(i) : 0xffff;
}

static void one(int hsn, int maio, int n, uint32_t fn)
{
	struct gsm_time t;
	uint16_t arfcn = 0xfffe;
	gsm_fn2gsmtime(&t, fn);
	rfch_get_params(&t, &arfcn, NULL, NULL);
	int e = ref_mai(hsn, maio, n, fn);
	n_eval++;
	if (arfcn != arfcn_of(e)) {
		if (n_bad++ < 5)
			printf("MISMATCH hsn=%d maio=%d n=%d fn=%u got_arfcn=%u exp_mai=%d exp_arfcn=%u\n", hsn, maio, n, fn, arfcn, e, arfcn_of(e));
	}
}

int main(int argc, char **argv)
{
	if (argc >= 6 && !strcmp(argv[1], "sweep")) {
		/* sweep <maio_mode 0..3> <hsn_lo> <hsn_hi> <t1r_step> <t1r_phase> : pseudo-random part, all T2,T3,N */
		int mm = atoi(argv[2]), hlo = atoi(argv[3]), hhi = atoi(argv[4]), st = atoi(argv[5]), ph = argc > 6 ? atoi(argv[6]) : 0;
		for (int hsn = hlo; hsn < hhi; hsn++)
		for (int n = 1; n <= 64; n++) {
			int maio = mm == 0 ? 0 : mm == 1 ? 1 : mm == 2 ? n - 1 : 63;
			setup(hsn, maio, n);
			int nb = 0; while ((1 << nb) <= n) nb++;
			for (int t1 = ph; t1 < 64; t1 += st)
			for (int t2 = 0; t2 < 26; t2++)
			for (int t3 = 0; t3 < 51; t3++) {
				/* an FN with these T1R/T2/T3: T1 = t1 + 64*k, k rotates */
				int T1 = t1 + 64 * ((hsn + t2 + t3) % 32);
				uint32_t fn = 51u * (uint32_t)((t3 - t2 + 26) % 26) + (uint32_t)t3 + 1326u * (uint32_t)T1;
				one(hsn, maio, n, fn);
				if (hsn) { int x=0; for (int i=0;i<6;i++) if (((hsn>>i)%2)!=((t1>>i)%2)) x+=1<<i; if (((t2 + RN[x + t3]) % (1 << nb)) >= n) n_dev++; }
			}
		}
	} else if (argc >= 5 && !strcmp(argv[1], "cyclic")) {
		/* cyclic <fn_lo> <fn_hi> <n_step>: HSN=0 depends on the whole FN */
		uint32_t lo = strtoul(argv[2], 0, 10), hi = strtoul(argv[3], 0, 10);
		int ns = atoi(argv[4]);
		for (int n = 1; n <= 64; n += ns)
		for (int mm = 0; mm < 4; mm++) {
			int maio = mm == 0 ? 0 : mm == 1 ? 1 : mm == 2 ? n - 1 : 63;
			setup(0, maio, n);
			for (uint32_t fn = lo; fn < hi; fn++)
				one(0, maio, n, fn);
		}
	} else if (argc >= 2 && !strcmp(argv[1], "query")) {
		/* persistent: "hsn maio n fn a0 a1 ... a(n-1)" -> "R arfcn" */
		char line[4096];
		while (fgets(line, sizeof(line), stdin)) {
			char *p = line;
			int hsn = strtol(p, &p, 10), maio = strtol(p, &p, 10), n = strtol(p, &p, 10);
			uint32_t fn = strtoul(p, &p, 10);
			setup(hsn, maio, n);
			for (int i = 0; i < n && i < 64; i++)
				l1s.dedicated.h1.ma[i] = (uint16_t)strtol(p, &p, 10);
			struct gsm_time t; uint16_t arfcn = 0xfffe;
			gsm_fn2gsmtime(&t, fn);
			rfch_get_params(&t, &arfcn, NULL, NULL);
			printf("R %u\nEND\n", arfcn);
			fflush(stdout);
		}
		return 0;
	} else
		return 2;
	printf("DONE evals=%lu bad=%lu deviation=%lu\n", n_eval, n_bad, n_dev);
	return 0;
}
