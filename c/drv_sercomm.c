/* C06 driver: unmodified firmware comm/sercomm.c (#included so that its static state can be reset),
 * in-tree libosmocore msgb.c/talloc.c.  Built twice: -DHOST_BUILD (2048-octet receive buffer) and the
 * target branch (256 octets; uart_irq_enable stubbed).
 *
 * one request line = one history (state reset at the top):
 *   G d            register the recording handler for DLCI d
 *   S d <hex|->    queue a message on DLCI d
 *   P k            pull k octets from the transmitter and feed each to the receiver
 *   F              pull+feed until the frame in transmission is complete (or nothing is pending)
 *   D              pull+feed until the transmitter is idle
 *   N <hex>        feed these octets to the receiver only (noise / hand-made frames)
 * reply: "p <hex>" per P/F/D (octets pulled), "d <dlci> <hex>" per delivered message, in order of occurrence
 */
#include <stdint.h>
#include <stdio.h>
#include <stdlib.h>
#include <string.h>
#include <unistd.h>
#include <signal.h>
#include <sys/wait.h>

#ifndef HOST_BUILD
#include <uart.h>
static int uart_irq_calls;
void uart_irq_enable(uint8_t uart, enum uart_irq irq, int on) { uart_irq_calls++; }
#endif

#include SERCOMM_C

/* libosmocore's panic handler wants a backtrace printer; not needed here */
void osmo_generate_backtrace(void) { }

static void rec_cb(uint8_t dlci, struct msgb *msg)
{
	unsigned int i;
	printf("d %u ", dlci);
	if (msg->len == 0)
		printf("-");
	for (i = 0; i < msg->len; i++)
		printf("%02x", msg->data[i]);
	printf("\n");
	msgb_free(msg);
}

static int hexval(int c) { return c <= '9' ? c - '0' : (c | 32) - 'a' + 10; }

static void pull_feed(int mode, long k)
{
	/* mode 0: k octets; 1: until end of current frame; 2: until idle */
	uint8_t ch;
	long n = 0;
	static uint8_t obuf[1 << 23];
	int truncated = 0, runaway = 0;
	long on = 0;
	while (1) {
		if (mode == 0 && n >= k) break;
		if (n > (16l << 20)) { runaway = 1; break; }      /* far beyond anything a history queues: the transmitter never goes idle */
		if (!sercomm_drv_pull(&ch)) break;
		if (on < (long)sizeof(obuf)) obuf[on++] = ch; else truncated = 1;
		n++;
		/* print what was pulled before the receiver may print a delivery */
		sercomm_drv_rx_char(ch);
		if (mode == 1 && sercomm.tx.msg == NULL) break;
	}
	/* deliveries were printed inline; the pulled octets are reported afterwards with their count, the Python
	 * side reconstructs positions from the frame structure */
	if (runaway) { printf("RUNAWAY\n"); return; }
	if (truncated) { printf("HARNESS-OVERFLOW\n"); return; }   /* a limit of this driver, never a property violation */
	printf("p ");
	if (!on) printf("-");
	for (long i = 0; i < on; i++) printf("%02x", obuf[i]);
	printf("\n");
}

int main(void)
{
	static char line[1 << 24];
	setvbuf(stdout, NULL, _IOFBF, 1 << 20);
	while (fgets(line, sizeof(line), stdin)) {
		char *p = line;
		/* one history = one process image: the request is handled in a forked child, so that nothing (allocator state, message
		 * pools, statics of sercomm.c / msgb.c) can leak from one history into the next */
		fflush(stdout);
		pid_t pid = fork();
		if (pid < 0) return 3;
		if (pid > 0) {
			int st = 0;
			waitpid(pid, &st, 0);
			if (WIFSIGNALED(st)) { raise(WTERMSIG(st)); return 4; }
			if (WEXITSTATUS(st) != 0) return WEXITSTATUS(st);
			continue;
		}
		memset(&sercomm, 0, sizeof(sercomm));
		sercomm_init();
		for (;;) {
			while (*p == ' ') p++;
			if (!*p || *p == '\n') break;
			char op = *p++;
			if (op == 'G') {
				int d = strtol(p, &p, 10);
				printf("g %d\n", sercomm_register_rx_cb(d, rec_cb));
			} else if (op == 'S') {
				int d = strtol(p, &p, 10);
				while (*p == ' ') p++;
				char *q = p;
				while (*q && *q != ' ' && *q != '\n') q++;
				long n = (*p == '-') ? 0 : (q - p) / 2;
				struct msgb *msg = sercomm_alloc_msgb(n ? n : 1); /* the allocator's static assert wants size > headroom */
				uint8_t *dst = msgb_put(msg, n);
				for (long i = 0; i < n; i++) dst[i] = hexval(p[2 * i]) * 16 + hexval(p[2 * i + 1]);
				p = q;
				sercomm_sendmsg(d, msg);
			} else if (op == 'P') {
				pull_feed(0, strtol(p, &p, 10));
			} else if (op == 'F') {
				pull_feed(1, 0);
			} else if (op == 'D') {
				pull_feed(2, 0);
			} else if (op == 'N') {
				while (*p == ' ') p++;
				while (*p && *p != ' ' && *p != '\n') {
					sercomm_drv_rx_char(hexval(p[0]) * 16 + hexval(p[1]));
					p += 2;
				}
				printf("n\n");
			} else {
				printf("? %c\n", op);
				break;
			}
		}
		printf("END\n");
		fflush(stdout);
		_exit(0);
	}
	return 0;
}
