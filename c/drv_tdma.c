/* C08 driver: unmodified firmware layer1/tdma_sched.c; the driver owns l1s.
 * One request line = one whole history; static state is reset at the top of each.
 *   ops: S off cb p1 p2 p3 prio | T off p3 n {i cb p1 p2 prio flags | f}*n | A | X | R | G
 * reply lines: one per op ("s rc", "t rc", "a", "x rc k cb:p1:p2:p3 ...", "r", "g flags"), then cur bucket
 */
#include <stdint.h>
#include <stdio.h>
#include <stdlib.h>
#include <string.h>
#include <layer1/sync.h>
#include <layer1/tdma_sched.h>

struct l1s_state l1s;

static struct { int cb; uint8_t p1, p2; uint16_t p3; int rc; } calls[64];
static int n_calls;

#define CB(n) static int cb##n(uint8_t p1, uint8_t p2, uint16_t p3) { \
	if (n_calls < 64) { calls[n_calls].cb = n; calls[n_calls].p1 = p1; calls[n_calls].p2 = p2; calls[n_calls].p3 = p3; } \
	n_calls++; return 0; }
CB(0) CB(1) CB(2) CB(3) CB(4) CB(5)
/* callback 6 schedules a follow-up item (callback 0, same parameters, priority 0) p2 & 3 frames ahead - the scheduler
 * documents that a callback may schedule more items, also for the current frame */
static int cb6(uint8_t p1, uint8_t p2, uint16_t p3)
{
	int slot = n_calls++;
	int rc = tdma_schedule(p2 & 3, cb0, p1, p2, p3, 0);
	if (slot < 64) { calls[slot].cb = 6; calls[slot].p1 = p1; calls[slot].p2 = p2; calls[slot].p3 = p3; calls[slot].rc = rc; }
	return 0;
}
static tdma_sched_cb *cbs[7] = { cb0, cb1, cb2, cb3, cb4, cb5, cb6 };

int main(void)
{
	static char line[1 << 20];
	while (fgets(line, sizeof(line), stdin)) {
		char *p = line;
		memset(&l1s.tdma_sched, 0, sizeof(l1s.tdma_sched));
		for (;;) {
			while (*p == ' ') p++;
			if (!*p || *p == '\n') break;
			char op = *p++;
			if (op == 'S') {
				int off = strtol(p, &p, 10), cb = strtol(p, &p, 10), p1 = strtol(p, &p, 10), p2 = strtol(p, &p, 10);
				int p3 = strtol(p, &p, 10), prio = strtol(p, &p, 10);
				printf("s %d\n", tdma_schedule(off, cbs[cb % 7], p1, p2, p3, prio));
			} else if (op == 'T') {
				int off = strtol(p, &p, 10), p3 = strtol(p, &p, 10), n = strtol(p, &p, 10);
				struct tdma_sched_item *set = calloc(n + 1, sizeof(*set));
				for (int i = 0; i < n; i++) {
					while (*p == ' ') p++;
					char k = *p++;
					if (k == 'f') { set[i].cb = NULL; }
					else {
						set[i].cb = cbs[strtol(p, &p, 10) % 7];
						set[i].p1 = strtol(p, &p, 10); set[i].p2 = strtol(p, &p, 10);
						set[i].prio = strtol(p, &p, 10); set[i].flags = strtol(p, &p, 10);
						set[i].p3 = 0x7777;
					}
				}
				set[n].cb = &tdma_end_set;
				printf("t %d\n", tdma_schedule_set(off, set, p3));
				free(set);
			} else if (op == 'A') {
				tdma_sched_advance();
				printf("a\n");
			} else if (op == 'X') {
				n_calls = 0;
				int rc = tdma_sched_execute();
				printf("x %d %d", rc, n_calls);
				for (int i = 0; i < n_calls && i < 64; i++) {
					printf(" %d:%u:%u:%u", calls[i].cb, calls[i].p1, calls[i].p2, calls[i].p3);
					if (calls[i].cb == 6) printf(":%d", calls[i].rc);
				}
				printf("\n");
			} else if (op == 'R') {
				tdma_sched_reset();
				printf("r\n");
			} else if (op == 'G') {
				printf("g %u\n", tdma_sched_flag_scan());
			} else {
				printf("? %c\n", op);
				break;
			}
		}
		printf("c %u\nEND\n", l1s.tdma_sched.cur_bucket);
		fflush(stdout);
	}
	return 0;
}
