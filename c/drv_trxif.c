/* Driver for trxcon's transceiver interface: unmodified src/host/trxcon/src/trx_if.c is linked against
 * this file, which provides (a) the small subset of modern libosmocore it needs (FSM, fd, socket ->
 * socketpair, timer, talloc -> malloc) and (b) a line protocol on stdin/stdout through which the Python
 * side injects datagrams into the real socket callbacks and captures what trx_if.c send()s.
 *
 * protocol (one request per line, reply lines terminated by END):
 *   open
 *   cmd reset|poweron|poweroff|measure A|setfreq_h0 A|setfh HSN MAIO N a0 a1 ..|setslot TN PCHAN|setta TA
 *   ctrl <hex>          deliver datagram to the CTRL socket, run trx_ctrl_read_cb
 *   data <hex>          deliver datagram to the DATA socket, run trx_data_rx_cb
 *   burst FN TN PWR <hexbits|->   trx_if_handle_phyif_burst_req
 *   timer               fire the TRXC retransmission timer if armed
 */
#include <stdio.h>
#include <stdlib.h>
#include <stdint.h>
#include <stdbool.h>
#include <string.h>
#include <errno.h>
#include <unistd.h>
#include <fcntl.h>
#include <sys/socket.h>

#include <osmocom/core/select.h>
#include <osmocom/core/socket.h>
#include <osmocom/core/talloc.h>
#include <osmocom/core/timer.h>
#include <osmocom/core/fsm.h>
#include <osmocom/core/utils.h>
#include <osmocom/gsm/gsm_utils.h>
#include <osmocom/bb/trxcon/trx_if.h>

/* ------------------------------------------------------------------ shim */
static int g_terminated;
static int g_term_cause = -1;
/* two transceiver instances can be open side by side ("inst 0|1" selects the one the following requests talk to) */
static int cur;
static int g_peer_ctrl[2] = { -1, -1 }, g_peer_data[2] = { -1, -1 };
#define peer_ctrl (g_peer_ctrl[cur])
#define peer_data (g_peer_data[cur])
static uint16_t g_base_port = 6700;

void *verif_talloc_zero(size_t size) { return calloc(1, size ? size : 1); }
void verif_talloc_free(void *p) { free(p); }

void osmo_fd_unregister(struct osmo_fd *fd) { (void)fd; }
int osmo_fd_register(struct osmo_fd *fd) { (void)fd; return 0; }

int osmo_sock_init2_ofd(struct osmo_fd *ofd, int family, int type, int proto,
			const char *local_host, uint16_t local_port,
			const char *remote_host, uint16_t remote_port, unsigned int flags)
{
	int sv[2];
	if (socketpair(AF_UNIX, SOCK_DGRAM, 0, sv) < 0)
		return -errno;
	fcntl(sv[0], F_SETFL, O_NONBLOCK);
	fcntl(sv[1], F_SETFL, O_NONBLOCK);
	ofd->fd = sv[0];
	ofd->when = OSMO_FD_READ;
	if ((remote_port - g_base_port) & 1) {
		if (peer_ctrl >= 0) close(peer_ctrl);
		peer_ctrl = sv[1];
	} else {
		if (peer_data >= 0) close(peer_data);
		peer_data = sv[1];
	}
	return sv[0];
}

void osmo_timer_schedule(struct osmo_timer_list *t, int s, int us) { t->active = 1; t->sec = s; t->usec = us; }
void osmo_timer_del(struct osmo_timer_list *t) { t->active = 0; }
int osmo_timer_pending(const struct osmo_timer_list *t) { return t->active; }

int osmo_fsm_register(struct osmo_fsm *fsm) { (void)fsm; return 0; }

struct osmo_fsm_inst *osmo_fsm_inst_alloc_child(struct osmo_fsm *fsm, struct osmo_fsm_inst *parent, uint32_t ev)
{
	struct osmo_fsm_inst *fi = calloc(1, sizeof(*fi));
	fi->fsm = fsm;
	fi->state = 0;
	fi->proc.parent = parent;
	fi->proc.parent_term_event = ev;
	return fi;
}

void osmo_fsm_inst_free(struct osmo_fsm_inst *fi) { free(fi); }

int _osmo_fsm_inst_state_chg(struct osmo_fsm_inst *fi, uint32_t new_state, unsigned long to, int T, const char *file, int line)
{
	const struct osmo_fsm_state *st = &fi->fsm->states[fi->state];
	if (new_state >= fi->fsm->num_states)
		return -1;
	if (!((1u << new_state) & st->out_state_mask))
		return -1; /* -EPERM in libosmocore: transition not permitted, state unchanged */
	fi->state = new_state;
	return 0;
}

void _osmo_fsm_inst_term(struct osmo_fsm_inst *fi, enum osmo_fsm_term_cause cause, void *data, const char *file, int line)
{
	if (fi->proc.terminating)
		return;
	fi->proc.terminating = true;
	if (fi->fsm->cleanup)
		fi->fsm->cleanup(fi, cause);
	g_terminated = 1;
	g_term_cause = cause;
	free(fi);
}

uint16_t gsm_freq102arfcn(uint16_t freq10, int uplink)
{
	uint16_t a;
	for (a = 0; a < 1024; a++)
		if (gsm_arfcn2freq10(a, uplink) == freq10)
			return a;
	for (a = 512; a <= 810; a++)
		if (gsm_arfcn2freq10(a | ARFCN_PCS, uplink) == freq10)
			return a | ARFCN_PCS;
	return 0xffff;
}

/* ------------------------------------------------- upper layer (recorded) */
static int g_quiet;

int trxcon_phyif_handle_burst_ind(void *priv, const struct trxcon_phyif_burst_ind *bi)
{
	unsigned int i;
	if (g_quiet) {
		/* fuzz mode: the semantic oracle lives here - only legal bursts may reach the scheduler,
		 * and every soft bit must be readable (ASan checks the buffer) */
		volatile int acc = 0;
		if ((bi->burst_len != 148 && bi->burst_len != 444) || bi->fn >= 2715648u || bi->tn > 7)
			__builtin_trap();
		for (i = 0; i < bi->burst_len; i++)
			acc += bi->burst[i];
		return 0;
	}
	if ((uintptr_t)priv != (uintptr_t)(0x1234 + cur))
		printf("WRONGINST %p\n", priv);
	printf("BURST_IND %u %u %d %d %u ", bi->fn, bi->tn, bi->rssi, bi->toa256, bi->burst_len);
	for (i = 0; i < bi->burst_len; i++)
		printf("%02x", (uint8_t)bi->burst[i]);
	printf("\n");
	return 0;
}

int trxcon_phyif_handle_rts_ind(void *priv, const struct trxcon_phyif_rts_ind *rts)
{
	if (g_quiet) { if (rts->fn >= 2715648u || rts->tn > 7) __builtin_trap(); return 0; }
	printf("RTS %u %u\n", rts->fn, rts->tn);
	return 0;
}

int trxcon_phyif_handle_rsp(void *priv, const struct trxcon_phyif_rsp *rsp)
{
	if (g_quiet) return 0;
	if (rsp->type == TRXCON_PHYIF_CMDT_MEASURE)
		printf("RSP_MEASURE %u %d\n", rsp->param.measure.band_arfcn, rsp->param.measure.dbm);
	else
		printf("RSP_OTHER %d\n", rsp->type);
	return 0;
}

/* ---------------------------------------------------------------- driver */
static struct trx_instance *g_trx[2];
#define trx (g_trx[cur])

static void do_open(void)
{
	struct trx_if_params p = {
		.local_host = "127.0.0.1", .remote_host = "127.0.0.1", .base_port = g_base_port,
		.fn_advance = 3, .instance = cur, .parent_fi = NULL, .parent_term_event = 0, .priv = (void *)(uintptr_t)(0x1234 + cur),
	};
	if (trx) {
		trx_if_close(trx);
		trx = NULL;
	}
	g_terminated = 0;
	trx = trx_if_open(&p);
}

static void after_call(void)
{
	if (g_terminated) {
		trx = NULL;
		if (peer_ctrl >= 0) { /* drain what the cleanup sent, then drop the peer ends */ }
	}
}

static void drain(int fd, const char *tag)
{
	uint8_t buf[4096];
	ssize_t n;
	if (fd < 0)
		return;
	while ((n = recv(fd, buf, sizeof(buf), MSG_DONTWAIT)) >= 0) {
		ssize_t i;
		printf("%s %zd ", tag, n);
		for (i = 0; i < n; i++)
			printf("%02x", buf[i]);
		printf("\n");
		if (n == 0)
			break;
	}
}

static int qlen(void)
{
	struct llist_head *it;
	int n = 0;
	if (!trx)
		return -1;
	llist_for_each(it, &trx->trx_ctrl_list)
		n++;
	return n;
}

/* the commands waiting in the TRXC queue (head = the one on the wire), one "Q <hex>" line each */
static void queue_lines(void)
{
	struct trx_ctrl_msg *tcm;
	if (!trx)
		return;
	llist_for_each_entry(tcm, &trx->trx_ctrl_list, list) {
		const char *c;
		printf("Q ");
		for (c = tcm->cmd; *c; c++)
			printf("%02x", (uint8_t)*c);
		printf("\n");
	}
}

static void state_line(void)
{
	if (trx)
		printf("STATE %u QLEN %d TERM 0 POWERED %d TIMER %u\n", trx->fi->state, qlen(), trx->powered_up, trx->trx_ctrl_timer.active);
	else
		printf("STATE - QLEN -1 TERM 1 CAUSE %d\n", g_term_cause);
}

static size_t unhex(const char *s, uint8_t *out, size_t max)
{
	size_t n = 0;
	while (s[0] && s[1] && n < max) {
		unsigned int v;
		if (sscanf(s, "%2x", &v) != 1)
			break;
		out[n++] = v;
		s += 2;
	}
	return n;
}

#ifdef FUZZ_TARGET
/* libFuzzer entry: the input is a sequence of records  <op> <len_lo> <len_hi> <payload>:
 *   op%4 == 0  enqueue one of trxcon's commands (payload selects it)   == 1  deliver payload to the CTRL callback
 *   op%4 == 2  deliver payload to the DATA callback                     == 3  fire the retransmission timer */
static void drain_quiet(int fd)
{
	uint8_t b[4096];
	if (fd < 0) return;
	while (recv(fd, b, sizeof(b), MSG_DONTWAIT) >= 0) { }
}

int LLVMFuzzerTestOneInput(const uint8_t *data, size_t size)
{
	size_t i = 0;
	g_quiet = 1;
	do_open();                      /* all state of the code under test is rebuilt for every input */
	while (i + 3 <= size) {
		uint8_t op = data[i];
		size_t len = data[i + 1] | ((size_t)data[i + 2] << 8);
		const uint8_t *pl = data + i + 3;
		i += 3;
		if (len > size - i) len = size - i;
		i += len;
		if (!trx) do_open();
		switch (op % 4) {
		case 0: {
			struct trxcon_phyif_cmd cmd;
			static uint16_t ma[64];
			memset(&cmd, 0, sizeof(cmd));
			uint8_t k = len > 0 ? pl[0] : 0, a1 = len > 1 ? pl[1] : 0, a2 = len > 2 ? pl[2] : 0;
			switch (k % 8) {
			case 0: cmd.type = TRXCON_PHYIF_CMDT_RESET; break;
			case 1: cmd.type = TRXCON_PHYIF_CMDT_POWERON; break;
			case 2: cmd.type = TRXCON_PHYIF_CMDT_POWEROFF; break;
			case 3: cmd.type = TRXCON_PHYIF_CMDT_MEASURE; cmd.param.measure.band_arfcn = a1 | (a2 << 8); break;
			case 4: cmd.type = TRXCON_PHYIF_CMDT_SETFREQ_H0; cmd.param.setfreq_h0.band_arfcn = a1 | (a2 << 8); break;
			case 5: cmd.type = TRXCON_PHYIF_CMDT_SETSLOT; cmd.param.setslot.tn = a1 % 8; cmd.param.setslot.pchan = a2 % _GSM_PCHAN_MAX; break;
			case 6: cmd.type = TRXCON_PHYIF_CMDT_SETTA; cmd.param.setta.ta = (int8_t)a1; break;
			default: {
				unsigned n = a1 % 65, j;
				for (j = 0; j < n; j++) ma[j] = (a2 + j * 3) % 1024;
				cmd.type = TRXCON_PHYIF_CMDT_SETFREQ_H1;
				cmd.param.setfreq_h1.hsn = a2 % 64; cmd.param.setfreq_h1.maio = 0;
				cmd.param.setfreq_h1.ma = ma; cmd.param.setfreq_h1.ma_len = n;
			} }
			trx_if_handle_phyif_cmd(trx, &cmd);
			after_call();
			break; }
		case 1:
			drain_quiet(peer_ctrl);
			if (send(peer_ctrl, pl, len, 0) >= 0) {
				trx->trx_ofd_ctrl.cb(&trx->trx_ofd_ctrl, OSMO_FD_READ);
				after_call();
			}
			break;
		case 2:
			if (send(peer_data, pl, len, 0) >= 0) {
				trx->trx_ofd_data.cb(&trx->trx_ofd_data, OSMO_FD_READ);
				after_call();
			}
			break;
		default:
			if (trx->trx_ctrl_timer.active && trx->trx_ctrl_timer.cb) {
				trx->trx_ctrl_timer.active = 0;
				trx->trx_ctrl_timer.cb(trx->trx_ctrl_timer.data);
				after_call();
			}
		}
		drain_quiet(peer_ctrl);
		drain_quiet(peer_data);
	}
	if (trx) { trx_if_close(trx); trx = NULL; }
	return 0;
}
#else
int main(void)
{
	static char line[70000];
	static uint8_t buf[32768];
	setvbuf(stdout, NULL, _IOFBF, 1 << 16);
	while (fgets(line, sizeof(line), stdin)) {
		char *nl = strchr(line, '\n');
		if (nl) *nl = 0;
		if (!strcmp(line, "open")) {
			do_open();
			drain(peer_ctrl, "CTRL");
			printf("OPEN %d\n", trx ? 1 : 0);
		} else if (!strncmp(line, "cmd ", 4)) {
			struct trxcon_phyif_cmd cmd;
			static uint16_t ma[256];
			char *p = line + 4;
			int rc, ok = 1;
			memset(&cmd, 0, sizeof(cmd));
			if (!trx) do_open();
			if (!strncmp(p, "reset", 5)) cmd.type = TRXCON_PHYIF_CMDT_RESET;
			else if (!strncmp(p, "poweron", 7)) cmd.type = TRXCON_PHYIF_CMDT_POWERON;
			else if (!strncmp(p, "poweroff", 8)) cmd.type = TRXCON_PHYIF_CMDT_POWEROFF;
			else if (!strncmp(p, "measure ", 8)) { cmd.type = TRXCON_PHYIF_CMDT_MEASURE; cmd.param.measure.band_arfcn = atoi(p + 8); }
			else if (!strncmp(p, "setfreq_h0 ", 11)) { cmd.type = TRXCON_PHYIF_CMDT_SETFREQ_H0; cmd.param.setfreq_h0.band_arfcn = atoi(p + 11); }
			else if (!strncmp(p, "setslot ", 8)) { int a, b; sscanf(p + 8, "%d %d", &a, &b); cmd.type = TRXCON_PHYIF_CMDT_SETSLOT; cmd.param.setslot.tn = a; cmd.param.setslot.pchan = b; }
			else if (!strncmp(p, "setta ", 6)) { cmd.type = TRXCON_PHYIF_CMDT_SETTA; cmd.param.setta.ta = atoi(p + 6); }
			else if (!strncmp(p, "setfh ", 6)) {
				char *q = p + 6;
				int hsn = strtol(q, &q, 10), maio = strtol(q, &q, 10), n = strtol(q, &q, 10), i;
				for (i = 0; i < n && i < 256; i++) ma[i] = strtol(q, &q, 10);
				cmd.type = TRXCON_PHYIF_CMDT_SETFREQ_H1;
				cmd.param.setfreq_h1.hsn = hsn; cmd.param.setfreq_h1.maio = maio;
				cmd.param.setfreq_h1.ma = ma; cmd.param.setfreq_h1.ma_len = n;
			} else ok = 0;
			if (ok) {
				rc = trx_if_handle_phyif_cmd(trx, &cmd);
				after_call();
				printf("RC %d\n", rc);
			} else
				printf("BADCMD\n");
			drain(peer_ctrl, "CTRL");
			state_line();
		} else if (!strncmp(line, "ctrl ", 5) || !strcmp(line, "ctrl")) {
			size_t n = unhex(line + (line[4] ? 5 : 4), buf, sizeof(buf));
			int rc;
			if (!trx) do_open();
			drain(peer_ctrl, "CTRL");
			if (send(peer_ctrl, buf, n, 0) < 0)
				printf("SENDERR %d\n", errno);
			rc = trx->trx_ofd_ctrl.cb(&trx->trx_ofd_ctrl, OSMO_FD_READ);
			after_call();
			printf("RC %d\n", rc);
			drain(peer_ctrl, "CTRL");
			state_line();
		} else if (!strncmp(line, "data ", 5) || !strcmp(line, "data")) {
			size_t n = unhex(line + (line[4] ? 5 : 4), buf, sizeof(buf));
			int rc;
			if (!trx) do_open();
			if (send(peer_data, buf, n, 0) < 0)
				printf("SENDERR %d\n", errno);
			rc = trx->trx_ofd_data.cb(&trx->trx_ofd_data, OSMO_FD_READ);
			after_call();
			printf("RC %d\n", rc);
			state_line();
		} else if (!strcmp(line, "queue")) {
			queue_lines();
		} else if (!strncmp(line, "inst ", 5)) {
			cur = atoi(line + 5) & 1;
			if (!trx) do_open();
			printf("INST %d\n", cur);
		} else if (!strncmp(line, "burst ", 6)) {
			char *q = line + 6;
			struct trxcon_phyif_burst_req br;
			size_t n;
			int rc;
			if (!trx) do_open();
			br.fn = strtoul(q, &q, 10); br.tn = strtoul(q, &q, 10); br.pwr = strtoul(q, &q, 10);
			while (*q == ' ') q++;
			n = (*q == '-') ? 0 : unhex(q, buf, sizeof(buf));
			br.burst = n ? buf : NULL; br.burst_len = n;
			rc = trx_if_handle_phyif_burst_req(trx, &br);
			printf("RC %d\n", rc);
			drain(peer_data, "DATA");
		} else if (!strcmp(line, "timer")) {
			if (!trx) do_open();
			if (trx->trx_ctrl_timer.active && trx->trx_ctrl_timer.cb) {
				trx->trx_ctrl_timer.active = 0;
				trx->trx_ctrl_timer.cb(trx->trx_ctrl_timer.data);
				after_call();
				printf("FIRED\n");
			} else
				printf("NOTIMER\n");
			drain(peer_ctrl, "CTRL");
			state_line();
		} else if (!strcmp(line, "close")) {
			if (trx) { trx_if_close(trx); after_call(); }
			drain(peer_ctrl, "CTRL");
			state_line();
		} else
			printf("UNKNOWN\n");
		printf("END\n");
		fflush(stdout);
	}
	return 0;
}
#endif
