/* host shim for the firmware's ARM asm/system.h: interrupt masking is a no-op
 * in a single-threaded host driver */
#ifndef VERIF_ASM_SYSTEM_H
#define VERIF_ASM_SYSTEM_H
#define local_irq_save(x)      do { (x) = 0; } while (0)
#define local_firq_save(x)     do { (x) = 0; } while (0)
#define local_irq_restore(x)   do { (void)(x); } while (0)
#define local_fiq_disable()    do { } while (0)
#define local_fiq_enable()     do { } while (0)
#define local_irq_disable()    do { } while (0)
#define local_irq_enable()     do { } while (0)
#endif
