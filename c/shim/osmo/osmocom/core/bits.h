#pragma once
#include <stdint.h>
typedef int8_t  sbit_t;
typedef uint8_t ubit_t;
typedef uint8_t pbit_t;
static inline uint32_t osmo_load32be(const void *p)
{
	const uint8_t *b = p;
	return ((uint32_t)b[0] << 24) | ((uint32_t)b[1] << 16) | ((uint32_t)b[2] << 8) | b[3];
}
static inline void osmo_store32be(uint32_t x, void *p)
{
	uint8_t *b = p;
	b[0] = x >> 24; b[1] = x >> 16; b[2] = x >> 8; b[3] = x;
}
