/* shim: logging is a no-op (arguments are not evaluated) */
#pragma once
#include <stdio.h>
#define LOGL_DEBUG 1
#define LOGL_INFO 3
#define LOGL_NOTICE 5
#define LOGL_ERROR 7
#define LOGL_FATAL 8
#define DLGLOBAL (-1)
#define LOGP(ss, level, fmt, args...) do { } while (0)
#define LOGPC(ss, level, fmt, args...) do { } while (0)
#define LOGPFSML(fi, level, fmt, args...) do { (void)(fi); } while (0)
#define LOGPFSMSL(fi, ss, level, fmt, args...) do { (void)(fi); } while (0)
#define LOGPFSM(fi, fmt, args...) do { (void)(fi); } while (0)
