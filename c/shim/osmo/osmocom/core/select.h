#pragma once
#include <osmocom/core/linuxlist.h>
#define OSMO_FD_READ	0x0001
#define OSMO_FD_WRITE	0x0002
#define OSMO_FD_EXCEPT	0x0004
struct osmo_fd {
	struct llist_head list;
	int fd;
	unsigned int when;
	int (*cb)(struct osmo_fd *fd, unsigned int what);
	void *data;
	unsigned int priv_nr;
};
void osmo_fd_unregister(struct osmo_fd *fd);
int osmo_fd_register(struct osmo_fd *fd);
