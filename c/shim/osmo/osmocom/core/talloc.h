/* shim: malloc-backed talloc subset (every object is its own heap block, so ASan sees each one) */
#pragma once
#include <stdlib.h>
#include <string.h>
void *verif_talloc_zero(size_t size);
void verif_talloc_free(void *p);
#define talloc_zero(ctx, type) ((type *)verif_talloc_zero(sizeof(type)))
#define talloc_zero_size(ctx, size) verif_talloc_zero(size)
#define talloc_zero_array(ctx, type, n) ((type *)verif_talloc_zero(sizeof(type) * (n)))
#define talloc(ctx, type) ((type *)verif_talloc_zero(sizeof(type)))
#define talloc_free(p) verif_talloc_free((void *)(p))
#define talloc_named_const(ctx, size, name) verif_talloc_zero(size)
