#pragma once
#include <osmocom/core/linuxlist.h>
struct osmo_timer_list {
	struct llist_head list;
	unsigned int active;
	void (*cb)(void *);
	void *data;
	int sec, usec;
};
void osmo_timer_schedule(struct osmo_timer_list *timer, int seconds, int microseconds);
void osmo_timer_del(struct osmo_timer_list *timer);
int osmo_timer_pending(const struct osmo_timer_list *timer);
