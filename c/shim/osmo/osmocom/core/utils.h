#pragma once
#include <stdint.h>
#include <stddef.h>
#include <stdio.h>
#include <stdlib.h>
#ifndef ARRAY_SIZE
#define ARRAY_SIZE(x) (sizeof(x) / sizeof((x)[0]))
#endif
#define OSMO_MAX(a, b) ((a) >= (b) ? (a) : (b))
#define OSMO_MIN(a, b) ((a) >= (b) ? (b) : (a))
struct value_string { unsigned int value; const char *str; };
#define OSMO_ASSERT(exp) do { if (!(exp)) { fprintf(stderr, "OSMO_ASSERT failed: %s %s:%d\n", #exp, __FILE__, __LINE__); abort(); } } while (0)
#define osmo_static_assert(exp, name) typedef int dummy##name [(exp) ? 1 : -1] __attribute__((__unused__));
#define OSMO_UNLIKELY(x) __builtin_expect(!!(x), 0)
#define OSMO_LIKELY(x) __builtin_expect(!!(x), 1)
#define OSMO_DEPRECATED(text) __attribute__((__deprecated__(text)))
#define OSMO_STRINGIFY(x) #x
#define OSMO_VALUE_STRING(x) { x, #x }
const char *get_value_string(const struct value_string *vs, uint32_t val);
