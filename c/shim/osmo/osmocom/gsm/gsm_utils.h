/* shim: the declarations of modern libosmocore's gsm_utils.h that trxcon uses.
 * gsm_arfcn2freq10() is the repository's in-tree implementation (linked from gsm_utils.c);
 * gsm_freq102arfcn() is its inverse, implemented in the shim by search. */
#pragma once
#include <stdint.h>
#define ARFCN_PCS	0x8000
#define ARFCN_UPLINK	0x4000
#define ARFCN_FLAG_MASK	0xf000
struct gsm_time { uint32_t fn; uint16_t t1; uint8_t t2; uint8_t t3; uint8_t tc; };
uint16_t gsm_arfcn2freq10(uint16_t arfcn, int uplink);
uint16_t gsm_freq102arfcn(uint16_t freq10, int uplink);
enum gsm_phys_chan_config {
	GSM_PCHAN_NONE,
	GSM_PCHAN_CCCH,
	GSM_PCHAN_CCCH_SDCCH4,
	GSM_PCHAN_TCH_F,
	GSM_PCHAN_TCH_H,
	GSM_PCHAN_SDCCH8_SACCH8C,
	GSM_PCHAN_PDCH,
	GSM_PCHAN_TCH_F_PDCH,
	GSM_PCHAN_UNKNOWN,
	GSM_PCHAN_CCCH_SDCCH4_CBCH,
	GSM_PCHAN_SDCCH8_SACCH8C_CBCH,
	GSM_PCHAN_OSMO_DYN,
	_GSM_PCHAN_MAX
};
enum gsm_chan_t {
	GSM_LCHAN_NONE, GSM_LCHAN_SDCCH, GSM_LCHAN_TCH_F, GSM_LCHAN_TCH_H, GSM_LCHAN_UNKNOWN,
	GSM_LCHAN_CCCH, GSM_LCHAN_PDTCH, GSM_LCHAN_CBCH, _GSM_LCHAN_MAX
};
