# C01 - TRXD messages survive encode/decode unchanged
from hypothesis import strategies as st

from harness import strategies as S
from harness import tk
from harness import msglife
from harness.core import Sub, Violation, check, Failure
from refs.ref_trxd import MODS, HYPERFRAME

RULE = ("valid Tx/Rx messages drawn constructively over the full field ranges (boundary-biased), both header "
        "versions, all six modulations, NOPE yes/no, legacy padding yes/no, three buffer types; oracle: "
        "parse(gen(m)) equals m field by field (+ v0 legacy/non-legacy metamorphic equality). Every valid "
        "message is non-trivial; distinct = distinct case (message+legacy+buffer type). Enumerations: every "
        "soft-bit value at several positions, every (modulation,TSC set,TSC,NOPE) MTS combination, FN boundaries x TN. "
        "accepted_candidates: the property quantifies over what the TOOLKIT accepts - C13's boundary lattice (singles + pairs over 13 baselines) "
        "is offered to gen_msg() and whatever is accepted must round-trip, also beyond the protocol ranges. Histories: message_sequences (several messages through re-used parser objects, refused messages in between) and object_life "
        "(ONE message object changed in place between encodings - header fields, burst elements / slices, burst replaced, burst <-> NOPE - "
        "each encoding decoded by a fresh object must give the object's current content).")
LEVEL = "exploration"
ASSUMPTIONS = [
    "symmetric encoder/decoder errors are invisible to a round trip (C04 compares with an independent layout)",
    "v0 does not carry modulation/TSC/C-I/NOPE: not compared on v0; NOPE carries no MTS sub-fields: not compared",
]

BUFTYPES = ("bytes", "bytearray", "memoryview")


def expected_fields(m):
    """what a decoded message must carry, given the message dict that was encoded"""
    e = {"ver": m["ver"], "fn": m["fn"], "tn": m["tn"]}
    if m["cls"] == "tx":
        e["pwr"] = m["pwr"]
        e["bits"] = [int(b) for b in m["bits"]]
        return e
    e["rssi"] = m["rssi"]
    e["toa256"] = m["toa256"]
    e["soft"] = None if m["soft"] is None else list(m["soft"])
    if m["ver"] >= 1:
        e["nope"] = bool(m["nope"])
        e["ci"] = m["ci"]
        if not m["nope"]:
            e["mod"] = m["mod"]
            e["tsc_set"] = m["tsc_set"]
            e["tsc"] = m["tsc"]
    return e


def as_buf(data, kind):
    if kind == "bytes":
        return bytes(data)
    if kind == "bytearray":
        return bytearray(data)
    return memoryview(bytes(data))


def decode_with_toolkit(cls, data, kind):
    msg = tk.new_msg(cls)
    msg.parse_msg(as_buf(data, kind))
    return tk.msg_fields(msg)


def roundtrip(case):
    m, legacy, kind = case["m"], case["legacy"], case["buf"]
    msg = tk.build_msg(m)
    try:
        enc = msg.gen_msg(legacy)
    except ValueError as e:
        raise Violation("c01:valid-message-refused", "gen_msg raised %r for %s" % (e, tk.msg_fields(msg)))
    # the encoder must not have changed the message it was given
    try:
        got = decode_with_toolkit(m["cls"], enc, kind)
    except ValueError as e:
        raise Violation("c01:own-encoding-rejected", "parse_msg raised %r" % (e,))
    exp = expected_fields(m)
    for k, v in exp.items():
        if got.get(k) != v:
            raise Violation("c01:field-differs:%s:%s:v%d" % (m["cls"], k, m["ver"]),
                            "field %s: encoded %r decoded %r (legacy=%s)" % (
                                k, _short(v), _short(got.get(k)), legacy))
    if m["ver"] == 0:
        other = decode_with_toolkit(m["cls"], tk.build_msg(m).gen_msg(not legacy), kind)
        for k in exp:
            if other.get(k) != got.get(k):
                raise Violation("c01:legacy-padding-changes-message:%s:%s" % (m["cls"], k),
                                "field %s differs between legacy and non-legacy encodings" % k)
    bl = len(m["bits"]) if m["cls"] == "tx" else (0 if m["soft"] is None else len(m["soft"]))
    classes = ["%s/v%d/%s/bl%d/%s" % (m["cls"], m["ver"], m.get("mod", "-") if not m.get("nope") else "NOPE",
                                     bl, "legacy" if legacy else "plain")]
    return classes, True, {"m": dict(m, **({"bits": m["bits"]} if "bits" in m else {})), "legacy": legacy, "buf": kind}


def _short(v):
    if isinstance(v, list) and len(v) > 12:
        return "%r...(%d)" % (v[:12], len(v))
    return v


case_st = st.fixed_dictionaries({
    "m": S.any_msg(),
    "legacy": st.booleans(),
    "buf": st.sampled_from(BUFTYPES),
})


def enumerations(ctx, rec):
    """degenerate generators: complete finite sub-domains"""
    fails = []
    seen_sig = set()

    def run(case, cls):
        try:
            roundtrip(case)
            rec.bulk(1, 1, {cls: 1})
        except Violation as v:
            if v.sig not in seen_sig:
                seen_sig.add(v.sig)
                fails.append(Failure("enumerations", case, v.sig, v.msg))
        except Exception as e:
            from harness.core import repo_frame_sig, HarnessError
            sig = repo_frame_sig(e)
            if sig is None:
                raise
            if sig not in seen_sig:
                seen_sig.add(sig)
                fails.append(Failure("enumerations", case, "crash:" + sig, repr(e)))

    # 1. every soft-bit value at first / middle / last position, every burst length, both versions
    for ver in (0, 1):
        for mod in sorted(MODS):
            n = MODS[mod][1]
            if ver == 0 and n not in (148, 444):
                continue
            for val in range(-127, 128):
                soft = [((val + i) % 255) - 127 if False else 0 for i in range(n)]
                soft[0] = val
                soft[n // 2] = -val
                soft[n - 1] = val
                m = {"cls": "rx", "ver": ver, "fn": 1000 + val, "tn": val % 8, "rssi": -60, "toa256": val, "soft": soft}
                if ver == 1:
                    m.update(ci=val, nope=False, mod=mod, tsc_set=0, tsc=0)
                for legacy in (False, True):
                    run({"m": m, "legacy": legacy, "buf": "bytearray"}, "enum:softvalue")
    # 2. every MTS combination
    for mod in sorted(MODS):
        for tsc_set in range(4 if mod == "GMSK" else 2):
            for tsc in range(8):
                n = MODS[mod][1]
                m = {"cls": "rx", "ver": 1, "fn": 42, "tn": 3, "rssi": -77, "toa256": -5, "ci": 10, "nope": False,
                     "mod": mod, "tsc_set": tsc_set, "tsc": tsc, "soft": [((i * 31 + tsc) % 255) - 127 for i in range(n)]}
                run({"m": m, "legacy": False, "buf": "bytes"}, "enum:mts")
    m = {"cls": "rx", "ver": 1, "fn": 42, "tn": 3, "rssi": -110, "toa256": 0, "ci": -30, "nope": True, "mod": "GMSK",
         "soft": None}
    run({"m": m, "legacy": False, "buf": "bytes"}, "enum:mts")
    # 3. FN boundaries x TN x class x version; attenuation 0..255; RSSI full range
    for fnv in S.FN_BOUNDARIES:
        for tn in range(8):
            for ver in (0, 1):
                mt = {"cls": "tx", "ver": ver, "fn": fnv, "tn": tn, "pwr": (fnv + tn) % 256, "bits": bytes([tn & 1]) * 148}
                run({"m": mt, "legacy": bool(tn & 1), "buf": "bytes"}, "enum:fn-tn")
                mr = {"cls": "rx", "ver": ver, "fn": fnv, "tn": tn, "rssi": -120 + (fnv + tn) % 74,
                      "toa256": (fnv * 7919) % 65536 - 32768, "soft": [127 - 2 * tn] * 148}
                if ver == 1:
                    mr.update(ci=(fnv % 2561) - 1280, nope=False, mod="GMSK", tsc_set=tn % 4, tsc=tn)
                run({"m": mr, "legacy": bool(tn & 1), "buf": "bytearray"}, "enum:fn-tn")
    for pwr in range(256):
        run({"m": {"cls": "tx", "ver": pwr & 1, "fn": pwr, "tn": 0, "pwr": pwr, "bits": bytes(444 if pwr & 2 else 148)},
             "legacy": bool(pwr & 4), "buf": "bytes"}, "enum:pwr")
    for toa in list(range(-32768, 32768, 97)) + [32767]:
        run({"m": {"cls": "rx", "ver": 0, "fn": 7, "tn": 1, "rssi": -47 - (toa % 74), "toa256": toa, "soft": [1] * 148},
             "legacy": False, "buf": "bytes"}, "enum:toa-rssi")
    for ci in range(-1280, 1281, 1):
        if ci % 7 == 0 or abs(ci) > 1270 or abs(ci) < 3:
            run({"m": {"cls": "rx", "ver": 1, "fn": 7, "tn": 1, "rssi": -50, "toa256": 0, "ci": ci, "nope": bool(ci & 1),
                       "mod": "GMSK", "tsc_set": 0, "tsc": 0, "soft": None if ci & 1 else [0] * 148},
                 "legacy": False, "buf": "bytes"}, "enum:ci")
    rec.exhaustive = True
    rec.samples.append({"enumerated": "soft values -127..127 x 3 positions x lengths x versions x legacy; "
                                      "all (mod,tsc_set,tsc)+NOPE; FN boundaries x TN x class x ver; pwr 0..255; toa; ci"})
    return fails


def sequence_oracle(case):
    """several messages processed one after the other (the codec classes live for the whole process): every step
    must give the result the message gives in isolation - no state may be carried from one message to the next.
    Half of the sequences re-use ONE message object per direction for all parse_msg() calls."""
    reuse = {"tx": tk.new_msg("tx"), "rx": tk.new_msg("rx")} if case["reuse"] else None
    n_ok = 0
    for step in case["steps"]:
        m, legacy, op = step["m"], step["legacy"], step["op"]
        if op == "invalid":
            # a refused message in between must not leave anything behind either
            bad = dict(m, tn=9)
            try:
                tk.build_msg(bad).gen_msg(legacy)
                raise Violation("c01:sequence:invalid-encoded", "tn=9 was encoded")
            except ValueError:
                continue
        msg = tk.build_msg(m)
        enc = bytes(msg.gen_msg(legacy))
        if op == "encode_only":
            continue
        target = reuse[m["cls"]] if reuse else tk.new_msg(m["cls"])
        try:
            target.parse_msg(bytearray(enc) if m["cls"] == "rx" else enc)
        except ValueError as e:
            raise Violation("c01:sequence:own-encoding-rejected", "step %d: %r" % (n_ok, e))
        got = tk.msg_fields(target)
        for k, v in expected_fields(m).items():
            if got.get(k) != v:
                raise Violation("c01:sequence:field-differs:%s:%s" % (m["cls"], k),
                                "step %d of a %d-step sequence (object re-use: %s): field %s encoded %r decoded %r" % (
                                    n_ok, len(case["steps"]), case["reuse"], k, _short(v), _short(got.get(k))))
        n_ok += 1
    return (["seq/%d" % len(case["steps"]), "reuse" if case["reuse"] else "fresh"], len(case["steps"]) >= 2,
            {"steps": [{"cls": x["m"]["cls"], "ver": x["m"]["ver"], "op": x["op"], "mod": x["m"].get("mod")} for x in case["steps"]]})


seq_case = st.fixed_dictionaries({
    "reuse": st.booleans(),
    "steps": st.lists(st.fixed_dictionaries({"m": S.any_msg(), "legacy": st.booleans(),
                                             "op": st.sampled_from(["roundtrip", "roundtrip", "roundtrip", "encode_only", "invalid"])}),
                      min_size=2, max_size=6),
})


def life_oracle(case):
    """ONE message object changed in place between encodings (fields, burst elements, burst replaced, burst <-> NOPE):
    decoding each encoding with a fresh object must give the object's CURRENT content"""
    msg, m = msglife.start(tk, case)
    n_enc = 0
    changes = []
    for k, op in enumerate(case["ops"]):
        if op[0] != "encode":
            r = msglife.apply_op(tk, msg, m, op)
            if r:
                changes.append(r)
            continue
        try:
            enc = bytes(msg.gen_msg(bool(op[1])))
        except ValueError as e:
            raise Violation("c01:life:valid-message-refused", "step %d: %r" % (k, e))
        n_enc += 1
        try:
            got = decode_with_toolkit(m["cls"], enc, "bytearray")
        except ValueError as e:
            raise Violation("c01:life:own-encoding-rejected", "step %d: %r" % (k, e))
        for f, v in expected_fields(m).items():
            if got.get(f) != v:
                raise Violation("c01:field-differs:%s:%s:after-in-place-change" % (m["cls"], f),
                                "encoding %d of one object (step %d, after changes %r): field %s is %r, decoded %r" % (
                                    n_enc, k, changes[-4:], f, _short(v), _short(got.get(f))))
    return (["life/%s/v%d" % (m["cls"], m["ver"])] + sorted(set(changes)), n_enc >= 2 and bool(changes),
            {"cls": m["cls"], "ver": m["ver"], "ops": [o[0] for o in case["ops"]]})


def accepted_candidates(ctx, rec):
    """The property quantifies over what THE TOOLKIT accepts as valid.  Candidates on and around every range boundary (the
    single-field and pair deviations of C13's lattice over 13 baselines) are offered to gen_msg(); whatever it accepts must
    survive its own decoder field by field - also a message the protocol ranges would not allow."""
    from checks import c13
    import itertools
    fails, seen = [], set()
    n_acc = n_rej = 0

    def carried(f):
        e = {"ver": f["ver"], "fn": f["fn"], "tn": f["tn"]}
        if f["cls"] == "tx":
            e.update(pwr=f["pwr"], bits=f["bits"])
            return e
        e.update(rssi=f["rssi"], toa256=f["toa256"], soft=f["soft"])
        if f["ver"] >= 1:
            e.update(nope=f["nope"], ci=f["ci"])
            if not f["nope"]:
                e.update(mod=f["mod"], tsc_set=f["tsc_set"], tsc=f["tsc"])
        return e

    def one(m):
        nonlocal n_acc, n_rej
        for legacy in (False, True):
            msg = c13.build(m)
            try:
                enc = bytes(msg.gen_msg(legacy))
            except ValueError:
                n_rej += 1
                continue
            except Exception as e:
                raise Violation("c01:accepted:encoder-raises-%s" % type(e).__name__, "%r for %r" % (e, m))
            n_acc += 1
            want = carried(tk.msg_fields(msg))
            try:
                got = decode_with_toolkit(m["cls"], enc, "bytearray")
            except ValueError as e:
                raise Violation("c01:accepted-message-own-encoding-rejected", "gen_msg(legacy=%s) accepted %r but parse_msg raised %r" % (legacy, m, e))
            for k, v in want.items():
                if got.get(k) != v:
                    raise Violation("c01:accepted-message-field-differs:%s:%s" % (m["cls"], k),
                                    "the toolkit accepted %r; field %s encoded %r decoded %r" % (m, k, _short(v), _short(got.get(k))))

    def guarded(m):
        try:
            one(m)
        except Violation as v:
            if v.sig not in seen:
                seen.add(v.sig)
                fails.append(Failure("accepted_candidates", m, v.sig, v.msg))
    for b in c13.baselines():
        fields = c13.TX_FIELDS if b["cls"] == "tx" else c13.RX_FIELDS
        for f in fields:
            for val in c13.CAND[f]:
                guarded(dict(b, **{f: val}))
        pairs = list(itertools.combinations(fields, 2))
        if ctx.tier == "quick":
            pairs = [p for i, p in enumerate(pairs) if (i + ctx.seed) % 3 == 0]
        for f1, f2 in pairs:
            for v1 in c13.CAND[f1]:
                for v2 in c13.CAND[f2]:
                    guarded(dict(b, **{f1: v1, f2: v2}))
    rec.bulk(n_acc + n_rej, n_acc, {"accepted-by-the-toolkit": n_acc, "refused": n_rej})
    rec.exhaustive = ctx.tier != "quick"
    rec.samples.append({"enumerated": "C13 lattice (singles + pairs) x legacy on/off; non-trivial = accepted by gen_msg()"})
    return fails


def accepted_replay(m):
    from checks import c13
    for legacy in (False, True):
        msg = c13.build(m)
        try:
            enc = bytes(msg.gen_msg(legacy))
        except ValueError:
            continue
        f = tk.msg_fields(msg)
        got = decode_with_toolkit(m["cls"], enc, "bytearray")
        for k in ("ver", "fn", "tn") + (("pwr", "bits") if m["cls"] == "tx" else ("rssi", "toa256", "soft", "mod", "tsc_set", "tsc", "ci", "nope")):
            if f["cls"] == "rx" and (f["ver"] == 0 and k in ("mod", "tsc_set", "tsc", "ci", "nope") or f.get("nope") and k in ("mod", "tsc_set", "tsc")):
                continue
            if got.get(k) != f.get(k):
                raise Violation("c01:accepted-message-field-differs:%s:%s" % (m["cls"], k), "%r vs %r" % (_short(f.get(k)), _short(got.get(k))))


SUBS = [
    Sub("accepted_candidates", fn=accepted_candidates),
    Sub("object_life", strategy=msglife.life_case, oracle=life_oracle, examples={"quick": 1000, "thorough": 40000}),
    Sub("roundtrip", strategy=case_st, oracle=roundtrip, examples={"quick": 4000, "thorough": 160000}),
    Sub("enumerations", fn=enumerations),
    Sub("message_sequences", strategy=seq_case, oracle=sequence_oracle, examples={"quick": 700, "thorough": 30000}),
]
SUBS[3].replay = roundtrip
SUBS[0].replay = accepted_replay
