# C02 - Virtual Um routing: bursts reach exactly the tuned, running peers
from hypothesis import strategies as st

from harness import simgen
from harness import strategies as S
from harness.core import Sub
from harness.session import Session

RULE = ("(histories also repeat a frame number right after a re-configuration - late timeslot / restarted clock - routing follows the configuration in force) " +
        "application configurations of 2..6 transceivers (BTS, MS, children, an extra parent and its children; varied ports and "
        "addresses) configured over TRXC (RXTUNE/TXTUNE from a pool of 4 frequencies so that matches are common, SETFH with "
        "1..6 channel pairs, SETFORMAT, RFMUTE, POWERON for ~80%), then 1..8 transmissions (any sender incl. powered-off "
        "ones, boundary-biased FN, attenuation mostly inside and sometimes outside the valid-RSSI region); every burst is "
        "fed to the sender's DATA socket and a clock tick for its frame is delivered. Oracle: reference model - exactly one "
        "DATA datagram to the L1 address of every running transceiver whose (fixed or hopping-resolved, refs/ref_hop) Rx "
        "frequency equals the sender's Tx frequency in that frame, nothing to anybody else. Non-trivial case: some burst had "
        ">=1 recipient and >=1 running non-recipient, or hopping was active on a running transceiver.")
LEVEL = "exploration"
ASSUMPTIONS = ["FakeNet replaces UDP; ticks are delivered by the harness (clock thread parked)",
               "a running but untuned transceiver (child powered by its parent) has no defined frequency: not asserted",
               "suppressed bursts (mute/FAKE_DROP) appear as NOPE on v1, nothing on v0 (content is C10/C18's business)"]


@st.composite
def case_st(draw):
    cfg = draw(simgen.app_config())
    n = simgen.n_trx(cfg)
    script = draw(simgen.tune_script(n))
    txs = []
    fn_st = st.one_of(S.fn(), S.fn(), st.builds(lambda k, d: (k * 1326 + d) % 2715648, st.integers(0, 2047), st.integers(-3, 1)))
    cmd_st = st.one_of(
        st.tuples(st.integers(0, n - 1), st.sampled_from(["RXTUNE", "TXTUNE"]), st.sampled_from(simgen.FREQ_POOL).map(lambda f: [str(f)])),
        st.tuples(st.integers(0, n - 1), st.just("SETFH"), simgen.setfh_args()))
    for _ in range(draw(st.integers(1, 8))):
        txs.append({"t": draw(st.integers(0, n - 1)), "fn": draw(fn_st), "tn": draw(st.integers(0, 7)),
                    "pwr": draw(st.one_of(st.integers(0, 60), st.integers(0, 60), st.integers(0, 255))),
                    "bits": draw(simgen.burst_bits()),
                    "retune": draw(st.one_of(st.none(), st.none(), st.tuples(st.integers(0, n - 1), st.sampled_from(["RXTUNE", "TXTUNE"]),
                                                                             st.sampled_from(simgen.FREQ_POOL)))),
                    # re-configuration that arrives while the burst is already queued (between enqueue and its tick)
                    "between": draw(st.one_of(st.just([]), st.just([]), st.lists(cmd_st, min_size=1, max_size=2))),
                    # the same sender goes on transmitting in the following frames (consecutive ticks)
                    "stream": draw(st.sampled_from([0, 0, 0, 2, 5])),
                    # the same frame number once more after a re-configuration (another timeslot of the frame arriving late, a clock
                    # that was restarted or wrapped): routing must follow the configuration in force NOW
                    "again": draw(st.one_of(st.none(), st.none(), st.fixed_dictionaries({
                        "cmds": st.lists(cmd_st, min_size=1, max_size=2), "t": st.integers(0, n - 1), "tn": st.integers(0, 7)})))})
    return {"cfg": cfg, "script": script, "txs": txs}


def oracle(case):
    s = Session(case["cfg"], {"routing", "ports"}, "c02")
    try:
        for (i, verb, args) in case["script"]:
            s.cmd(i, verb, list(args))
        for tx in case["txs"]:
            if tx["retune"]:
                i, verb, f = tx["retune"]
                s.cmd(i, verb, [str(f)])
            i = tx["t"]
            for k in range(tx.get("stream", 0) + 1):
                fn = (tx["fn"] + k) % 2715648
                s.arrive(i, {"ver": s.model.trx[i].ver, "fn": fn, "tn": tx["tn"], "pwr": tx["pwr"], "bits": tx["bits"]})
                if k == 0:
                    for (j, verb, args) in tx.get("between", []):
                        s.cmd(j, verb, list(args))
                s.tick(fn)
            ag = tx.get("again")
            if ag:
                for (j, verb, args) in ag["cmds"]:
                    s.cmd(j, verb, list(args))
                for who in (i, ag["t"]):
                    s.arrive(who, {"ver": s.model.trx[who].ver, "fn": fn, "tn": ag["tn"], "pwr": tx["pwr"], "bits": tx["bits"]})
                    s.tick(fn)
        nt = any((f["recipients"] >= 1 and f["running_nonrecipients"] >= 1) or f["hopping"] for f in s.fwd_log)
        cl = ["trx=%d" % s.n]
        if any(f["hopping"] for f in s.fwd_log):
            cl.append("hopping")
        if any(f["hop_match"] for f in s.fwd_log):
            cl.append("delivered-over-hopping-channel")
        if any(f["recipients"] >= 2 for f in s.fwd_log):
            cl.append("multi-recipient")
        if any(f["recipients"] >= 1 and f["running_nonrecipients"] >= 1 for f in s.fwd_log):
            cl.append("recipient+running-nonrecipient")
        if not s.fwd_log:
            cl.append("no-transmission")
        sample = {"cfg": case["cfg"], "script": [" ".join([str(i), v] + a) for i, v, a in case["script"]],
                  "txs": [{k: v for k, v in t.items() if k != "bits"} for t in case["txs"]], "stats": s.stats}
        return (cl, nt, sample)
    finally:
        s.close()


SUBS = [Sub("routing", strategy=case_st(), oracle=oracle, examples={"quick": 1200, "thorough": 40000})]
