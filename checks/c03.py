# C03 - Every queued burst is transmitted exactly once, in its own frame
import re

from hypothesis import strategies as st

from harness import interleave
from harness.core import Sub, Violation, HarnessError
from harness.session import Session
from refs import ref_trxd

H = ref_trxd.HYPERFRAME

RULE = ("(A) histories of 1..60 operations on a sender with an always-on observer: burst arrivals (FN relative to the clock "
        "-3..+40 or absolute, matching or mismatching header version), next-frame ticks, ticks with gaps, jumps to the last "
        "frames of the hyperframe (so wraps are common), POWEROFF/POWERON, SETFORMAT; the model accounts for every accepted "
        "burst: on air exactly once in the tick of its own frame, or one 'Stale TRXD message' report, or discarded by "
        "POWEROFF; histories end with a flush over every outstanding frame. (B) schedules: one socket-thread operation "
        "(arrival / POWEROFF / POWERON / SETFORMAT) racing one clock tick on real threads single-stepped by the interleaving "
        "explorer; ALL schedules with <=1 pre-emption at source-line granularity (quick) / <=2 pre-emptions and opcode "
        "granularity for <=1 (thorough) are enumerated per generated scenario; per-burst outcome accounting after race + "
        "flush, no exception, no deadlock. Non-trivial: (A) history with >=1 transmitted and >=1 stale-or-discarded burst or "
        "a wrap; (B) scenario whose schedules include a pre-emption while the queue lock is held/contended.")
LEVEL = "exploration"
ASSUMPTIONS = ["pre-emption granularity is a source line / bytecode of the toolkit's own files; C-level atomicity of list.append etc. is assumed",
               "socket-thread operations never race each other (one select loop): only socket-vs-clock races are generated",
               "a transmission completing after a concurrent POWEROFF but inside the burst's own tick is legal"]


# ---------------------------------------------------------------- (A) histories
@st.composite
def history(draw):
    start = draw(st.sampled_from([0, 1000, 1000, 50000, H - 30, H - 5, H - 1]))
    steps = []
    for _ in range(draw(st.integers(1, 60))):
        k = draw(st.sampled_from(["arrive"] * 8 + ["tick"] * 8 + ["gap", "jump", "off", "on", "fmt"]))
        if k == "arrive":
            rel = draw(st.one_of(st.integers(-3, 6), st.integers(-3, 40)))
            steps.append({"op": "arrive", "rel": rel, "abs": draw(st.one_of(st.none(), st.none(), st.none(), st.integers(0, H - 1))),
                          "tn": draw(st.integers(0, 7)), "badver": draw(st.integers(0, 9)) == 0})
        elif k == "tick":
            steps.append({"op": "tick", "gap": 1})
        elif k == "gap":
            steps.append({"op": "tick", "gap": draw(st.integers(2, 45))})
        elif k == "jump":
            steps.append({"op": "jump", "to": draw(st.integers(H - 8, H - 1))})
        elif k == "fmt":
            steps.append({"op": "fmt", "v": draw(st.sampled_from([0, 1]))})
        else:
            steps.append({"op": k})
    if draw(st.integers(0, 11)) == 0:
        # a flood: hundreds of bursts queued at once (several per frame and timeslot), as a busy multi-timeslot L1 produces
        k = draw(st.sampled_from([200, 209, 260, 400]))
        flood = [{"op": "arrive", "rel": 1 + (j % 30), "abs": None, "tn": j % 8, "badver": False} for j in range(k)]
        steps = flood + [{"op": "tick", "gap": 1}] * 3 + steps
    return {"start": start, "steps": steps, "obs_ver": draw(st.sampled_from([0, 1]))}


CFG = {"trx_defs": [], "bts_port": 5700, "bb_port": 6700, "bts_addr": "127.0.0.1", "bb_addr": "127.0.0.1", "bind_addr": "0.0.0.0"}


def setup_session(obs_ver, clauses=("queue", "routing")):
    s = Session(CFG, set(clauses), "c03")
    for i, (rx, tx) in enumerate([("890000", "935000"), ("935000", "890000")]):
        s.cmd(i, "RXTUNE", [rx])
        s.cmd(i, "TXTUNE", [tx])
    s.cmd(1, "SETFORMAT", [str(obs_ver)])
    s.cmd(0, "POWERON", [])
    s.cmd(1, "POWERON", [])
    return s


def bits_for(k):
    return bytes(((k >> (i % 16)) & 1) for i in range(148))


def hist_oracle(case):
    s = setup_session(case["obs_ver"])
    try:
        clock = case["start"]      # frame of the next tick
        nb = 0
        wrapped = False
        for st_ in case["steps"]:
            op = st_["op"]
            if op == "arrive":
                fn = st_["abs"] if st_["abs"] is not None else (clock + st_["rel"]) % H
                # keep away from the half-hyperframe ambiguity of "already passed"
                d = (fn - clock) % H
                if abs(d - H // 2) < 4:
                    fn = (fn + 100) % H
                ver = s.model.trx[0].ver ^ (1 if st_["badver"] else 0)
                nb += 1
                s.arrive(0, {"ver": ver, "fn": fn, "tn": st_["tn"], "pwr": nb % 256, "bits": bits_for(nb)})
            elif op == "tick":
                new = (clock + st_["gap"] - 1) % H
                if new < clock:
                    wrapped = True
                s.tick(new)
                clock = (new + 1) % H
                if clock == 0:
                    wrapped = True
            elif op == "jump":
                if (st_["to"] - clock) % H < H // 2:      # forward only
                    s.tick(st_["to"])
                    clock = (st_["to"] + 1) % H
                    if clock == 0:
                        wrapped = True
            elif op == "off":
                s.stats["discarded"] += len(s.model.trx[0].queue)
                s.cmd(0, "POWEROFF", [])
            elif op == "on":
                s.cmd(0, "POWERON", [])
            elif op == "fmt":
                s.cmd(0, "SETFORMAT", [str(st_["v"])])
        # flush: tick past every outstanding frame, in modular order from the clock
        if not s.model.trx[0].running:
            s.cmd(0, "POWERON", [])
        for _ in range(200):
            q = s.model.trx[0].queue
            if not q:
                break
            nxt = min(((b["fn"] - clock) % H) for b in q)
            if nxt >= H // 2:
                nxt = 0
            s.tick((clock + nxt) % H)
            clock = (clock + nxt + 1) % H
        if s.model.trx[0].queue:
            raise HarnessError("flush did not drain the model queue")
        for k in range(3):
            s.tick((clock + k) % H)
        st_ = s.stats
        cl = []
        if st_["emitted"]:
            cl.append("transmitted")
        if st_["stale"]:
            cl.append("stale")
        if st_["discarded"]:
            cl.append("discarded-by-poweroff")
        if wrapped:
            cl.append("wrap")
        nt = (st_["emitted"] >= 1 and (st_["stale"] + st_["discarded"]) >= 1) or wrapped
        return (cl, nt, {"start": case["start"], "steps": case["steps"], "stats": st_})
    finally:
        s.close()


# --------------------------------------------------------------- (B) schedules
@st.composite
def scenario(draw):
    return {"fn": draw(st.sampled_from([1000, 1000, 5, H - 1, 0])),
            "queue": draw(st.lists(st.sampled_from([-1, 0, 0, 1, 2]), min_size=0, max_size=4)),
            "op": draw(st.sampled_from(["arrive", "arrive", "arrive", "POWEROFF", "POWEROFF", "POWERON", "SETFORMAT",
                                        "POWEROFF+POWERON", "POWEROFF+POWERON", "arrive+arrive", "arrive+POWEROFF", "POWERON+arrive"])),
            "rel": draw(st.sampled_from([-1, 0, 0, 1])), "badver": draw(st.integers(0, 7)) == 0,
            "fmt": draw(st.sampled_from([0, 1])), "obs_ver": draw(st.sampled_from([0, 1]))}


STALE_RE = re.compile(r"Stale TRXD message \(fn=(\d+)\): .*fn=(\d+) tn=(\d+).*pwr=(\d+)")


class RaceRun:
    """one execution of a scenario under one schedule"""

    def __init__(self, sc, sched):
        self.sc = sc
        F = sc["fn"]
        s = setup_session(sc["obs_ver"], clauses=())
        self.s = s
        app = s.app
        self.trx = app.trx[0]
        self.bursts = {}          # id -> dict(fn, accepted, poweroff_possible)
        k = 0
        if sc["op"].startswith("POWERON"):
            s.cmd(0, "POWEROFF", [])
        else:
            for rel in sc["queue"]:
                k += 1
                b = {"ver": 0, "fn": (F + rel) % H, "tn": k % 8, "pwr": k, "bits": bits_for(k)}
                acc = s.arrive(0, b)
                self.bursts[k] = {"fn": b["fn"], "accepted": acc}
        self.lock = sched.new_lock()
        if not hasattr(self.trx, "_tx_queue_lock"):
            raise HarnessError("Transceiver._tx_queue_lock is gone: cannot make the queue mutex visible to the scheduler")
        self.trx._tx_queue_lock = self.lock
        self.result = {}
        ops = sc["op"].split("+")
        self.race_ids = []
        self.poweroff_pos = ops.index("POWEROFF") if "POWEROFF" in ops else None
        calls = []
        for pos, op in enumerate(ops):
            if op == "arrive":
                k += 1
                self.race_ids.append((k, pos))
                ver = 1 if (sc["badver"] and pos == 0) else 0
                b = {"ver": ver, "fn": (F + sc["rel"] + pos) % H, "tn": k % 8, "pwr": k, "bits": bits_for(k), "cls": "tx"}
                app.net.inject(self.trx.data_if.sock, ref_trxd.encode(b), app.l1_addr(self.trx, "data"))
                self.bursts[k] = {"fn": b["fn"], "accepted": None, "racing": True, "badver": ver == 1, "pos": pos}
                calls.append(("arrive", k))
            else:
                text = {"POWEROFF": "CMD POWEROFF", "POWERON": "CMD POWERON", "SETFORMAT": "CMD SETFORMAT %d" % sc["fmt"]}[op]
                app.net.inject(self.trx.ctrl_if.sock, text.encode() + b"\0", app.l1_addr(self.trx, "ctrl"))
                calls.append(("ctrl", None))

        def sock_op():
            for kind, bid in calls:
                if kind == "arrive":
                    self.result[bid] = self.trx.recv_data_msg()
                else:
                    self.trx.ctrl_if.handle_rx()
        self.sock_op = sock_op
        self.air_by_tick = {}
        self.cur_tick = None
        s.air = _TickTagged(self)
        app.logs.take()
        app.net.take()

        def clock_op():
            self.cur_tick = F
            app.app.clck_handler(F)
        self.clock_op = clock_op

    def finish_and_check(self, desc):
        s, sc, F = self.s, self.sc, self.sc["fn"]
        app = s.app
        ops = sc["op"].split("+")
        for bid, pos in self.race_ids:
            r = self.result.get(bid, "missing")
            acc = bool(r) and r != "missing"
            self.bursts[bid]["accepted"] = acc
            # running when it arrived?  (initially off for the POWERON scenarios; off after an earlier POWEROFF)
            was_on = (ops[0] != "POWERON" or "POWERON" in ops[:pos]) and "POWEROFF" not in ops[:pos]
            should = was_on and not self.bursts[bid]["badver"]
            if should and not acc:
                raise Violation("c03:race:arrival-refused", "%s: burst with matching version refused while running" % desc)
            if acc and self.bursts[bid]["badver"]:
                raise Violation("c03:race:wrong-version-accepted", desc)
            if acc and not was_on:
                raise Violation("c03:race:accepted-while-off", desc)
        powered_off = self.poweroff_pos is not None
        if not self.trx.running:
            # bring it back for the flush (POWERON does not resurrect anything that was discarded)
            s.app.cmd(self.trx, "RXTUNE 890000")
            s.app.cmd(self.trx, "TXTUNE 935000")
            s.app.cmd(self.trx, "POWERON")
        if ops[-1] == "POWERON" and not self.trx.running:
            raise Violation("c03:race:poweron-lost", "%s: transceiver not running after POWERON completed" % desc)
        for k in range(1, 5):
            self.cur_tick = (F + k) % H
            app.app.clck_handler(self.cur_tick)
        logs = app.logs.take()
        stale = {}
        for lv, m in logs:
            mm = STALE_RE.search(m)
            if mm:
                stale.setdefault(int(mm.group(4)), []).append(int(mm.group(1)))
        air = {}
        for tick, lst in self.air_by_tick.items():
            for (si, fn, tn, bits) in lst:
                bid = sum((bits[i] & 1) << i for i in range(16))
                air.setdefault(bid, []).append((tick, fn))
        for bid, b in self.bursts.items():
            on_air = air.get(bid, [])
            st_ = stale.get(bid, [])
            if not b["accepted"]:
                if on_air or st_:
                    raise Violation("c03:race:refused-burst-has-outcome", "%s: burst %d (not accepted) on air %r stale %r" % (desc, bid, on_air, st_))
                continue
            for (tick, fn) in on_air:
                if tick != b["fn"] or fn != b["fn"]:
                    raise Violation("c03:race:on-air-in-wrong-frame", "%s: burst %d for frame %d sent in tick %d" % (desc, bid, b["fn"], tick))
            before_off = powered_off and (not b.get("racing") or b["pos"] < self.poweroff_pos)
            if before_off and any(tick != F for (tick, fn) in on_air):
                raise Violation("c03:race:transmitted-after-poweroff", "%s: burst %d (fn=%d) was queued when POWEROFF completed, yet it went on air in tick %r after the next POWERON" % (
                    desc, bid, b["fn"], [t for t, _ in on_air]))
            if before_off and st_ and any(t != F for t in st_):
                raise Violation("c03:race:survived-poweroff", "%s: burst %d (fn=%d) still queued (reported stale at %r) after POWEROFF completed" % (desc, bid, b["fn"], st_))
            n = len(on_air) + len(st_)
            if n > 1:
                raise Violation("c03:race:duplicate-outcome", "%s: burst %d: on air %r, stale reports %r" % (desc, bid, on_air, st_))
            if n == 0 and not before_off:
                raise Violation("c03:race:burst-vanished", "%s: burst %d (fn=%d) accepted but never transmitted, reported stale or discarded by a power-off" % (desc, bid, b["fn"]))
            if st_ and not (0 < (st_[0] - b["fn"]) % H < H // 2):
                raise Violation("c03:race:stale-report-for-future-frame", "%s: burst %d fn=%d reported stale at tick %d" % (desc, bid, b["fn"], st_[0]))
        unknown = set(air) - set(self.bursts)
        if unknown:
            raise Violation("c03:race:unknown-burst-on-air", "%s: %r" % (desc, sorted(unknown)))
        if self.trx._tx_queue:
            raise Violation("c03:race:still-queued-after-flush", "%s: %d bursts" % (desc, len(self.trx._tx_queue)))


class _TickTagged(list):
    """stands in for Session.air: tags every on-air event with the running tick"""

    def __init__(self, run):
        list.__init__(self)
        self.run = run

    def append(self, ev):
        self.run.air_by_tick.setdefault(self.run.cur_tick, []).append(ev)


def explore(sc, opcodes, max_pre, stride2=False):
    """enumerate all schedules with <= max_pre pre-emptions; returns (n_schedules, n_contended, steps).
    The process is pinned to one CPU meanwhile: exactly one thread is runnable at any time anyway, and
    hand-offs between threads on the same core are several times cheaper."""
    import os
    old = os.sched_getaffinity(0)
    cpus = sorted(old)
    os.sched_setaffinity(0, {cpus[os.getpid() % len(cpus)]})
    try:
        return _explore(sc, opcodes, max_pre, stride2)
    finally:
        os.sched_setaffinity(0, old)


def _explore(sc, opcodes, max_pre, stride2=False):
    # dry run to learn the step counts
    sched = interleave.Scheduler(opcodes=opcodes)
    r = RaceRun(sc, sched)
    try:
        steps = sched.run({"A": r.sock_op, "B": r.clock_op}, [("A", None), ("B", None)])
        check_workers(sched, "serial A;B")
        r.finish_and_check("serial A;B")
    finally:
        r.s.close()
    plans = [[("B", None), ("A", None)]]
    for first, second in (("A", "B"), ("B", "A")):
        # first pre-emption point: every position, or (sampled mode at opcode granularity) at most ~200 spread positions
        st1 = max(1, steps[first] // 200) if (stride2 and opcodes) else 1
        for k in range(0, steps[first] + 1, st1):
            plans.append([(first, k), (second, None), (first, None)])
            if max_pre >= 2:
                # second pre-emption point: every position (thorough) or ~10 evenly spread positions, rotated by k
                st2 = max(1, steps[second] // 10) if stride2 else 1
                for k2 in range(1 + (k % st2), steps[second], st2):
                    plans.append([(first, k), (second, k2), (first, None), (second, None)])
    contended = 0
    for plan in plans:
        sched = interleave.Scheduler(opcodes=opcodes)
        r = RaceRun(sc, sched)
        desc = "schedule %s of scenario op=%s" % ("/".join("%s%s" % (n, "" if c is None else c) for n, c in plan), sc["op"])
        try:
            try:
                sched.run({"A": r.sock_op, "B": r.clock_op}, plan)
            except interleave.Deadlock as e:
                raise Violation("c03:race:deadlock", "%s: %s" % (desc, e))
            check_workers(sched, desc)
            r.finish_and_check(desc)
            if r.lock.contended:
                contended += 1
        finally:
            r.s.close()
    return len(plans) + 1, contended, steps


def check_workers(sched, desc):
    for n, w in sched.workers.items():
        if w.exc is not None:
            raise Violation("c03:race:exception:%s" % type(w.exc).__name__, "%s: thread %s raised %r" % (desc, n, w.exc))
        if not w.finished:
            raise Violation("c03:race:thread-stuck", "%s: thread %s did not finish" % (desc, n))


def race_oracle_factory(opcodes, max_pre, stride2=False):
    def race_oracle(sc):
        n, contended, steps = explore(sc, opcodes, max_pre, stride2)
        return (["op=" + sc["op"], "schedules=%d" % (n // 50 * 50)], contended > 0,
                {"scenario": sc, "schedules": n, "schedules_with_lock_contention": contended, "steps": steps})
    return race_oracle


RACE_OPS = ["arrive", "POWEROFF", "POWERON", "SETFORMAT", "POWEROFF+POWERON", "arrive+arrive", "arrive+POWEROFF", "POWERON+arrive"]


def races_core(ctx, rec):
    """stratified part of the schedule exploration: every kind of concurrent socket operation against a canonical queue (one due, one
    future, one stale burst), all schedules with <= 1 pre-emption at line granularity - so that no run depends on the random
    scenarios happening to contain a particular operation"""
    from harness.core import Failure
    fails, seen = [], set()
    for k, op in enumerate(RACE_OPS):
        for fn, queue in ([(1000, [0, 1, -1]), (H - 1, [0, 0])] if ctx.tier == "quick" else
                          [(f_, q_) for f_ in (1000, H - 1, 0) for q_ in ([0, 1, -1], [0, 0], [], [1, 2])]):
            sc = {"fn": fn, "queue": queue, "op": op, "rel": 0, "badver": False, "fmt": (k + ctx.seed) % 2, "obs_ver": (k // 2 + ctx.seed) % 2}
            try:
                n, contended, steps = explore(sc, False, 1, False)
                rec.note(sc, ["op=" + op, "core"], contended > 0, {"scenario": sc, "schedules": n, "schedules_with_lock_contention": contended})
            except Violation as v:
                if v.sig not in seen:
                    seen.add(v.sig)
                    fails.append(Failure("races_core_scenarios", sc, v.sig, v.msg))
    return fails


SUBS = [
    Sub("races_core_scenarios", fn=races_core),
    Sub("histories", strategy=history(), oracle=hist_oracle, examples={"quick": 500, "thorough": 20000}),
    Sub("races_line_1preemption", strategy=scenario(), oracle=race_oracle_factory(False, 1),
        examples={"quick": 30, "thorough": 400}, shards={"quick": 1, "thorough": 16}),
    Sub("races_line_2preemptions_sampled", strategy=scenario(), oracle=race_oracle_factory(False, 2, True),
        examples={"quick": 4, "thorough": 64}, shards={"quick": 1, "thorough": 16}),
    Sub("races_line_2preemptions", strategy=scenario(), oracle=race_oracle_factory(False, 2),
        examples={"quick": 0, "thorough": 48}, shards={"quick": 1, "thorough": 16}),
    Sub("races_opcode_1preemption_sampled", strategy=scenario(), oracle=race_oracle_factory(True, 1, True),
        examples={"quick": 3, "thorough": 0}, shards={"quick": 1, "thorough": 16}),
    Sub("races_opcode_1preemption", strategy=scenario(), oracle=race_oracle_factory(True, 1),
        examples={"quick": 0, "thorough": 64}, shards={"quick": 1, "thorough": 16}),
]
SUBS[0].replay = race_oracle_factory(False, 1)
