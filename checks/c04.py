# C04 - TRXD octets follow the protocol layout; Python and trxcon (C) agree
from hypothesis import strategies as st

from harness import strategies as S
from harness import tk
from harness import msglife
from harness.core import Sub, Violation
from refs import ref_trxd

RULE = ("(1) encoder differential: every generated valid Tx/Rx message (v0/v1, all modulations, NOPE, legacy on/off) "
        "must encode to exactly the octets of the independent layout model ref_trxd; (2) decoder differential: byte "
        "strings (valid encodings, their mutations: truncation/extension/bit flips/overwritten header octets, and random "
        "headers glued to bursts of every accepted length) - whenever parse_msg accepts, every field must equal the "
        "layout's interpretation; (1b) py_sequences / py_object_life: the same comparison for several messages through re-used objects "
        "and for ONE object changed in place between encodings (fields, burst elements, burst replaced, burst <-> NOPE); "
        "(5) c_two_instances: two trx_instance objects of one process used alternately with repeated frame numbers; (3)/(4) trxcon differential through the unmodified trx_if.c (see sub-checks c_rx, c_tx). "
        "Non-trivial: message/datagram carrying a burst whose header fields are not all zero.")
LEVEL = "exploration"
ASSUMPTIONS = ["ref_trxd (refs/ref_trxd.py) is a faithful transcription of the TRXD v0/v1 layout named in the property",
               "trxcon side: libosmocore is replaced by the shim in c/shim (socketpair instead of UDP, no-op logging)"]


def enc_oracle(case):
    m, legacy = case["m"], case["legacy"]
    msg = tk.build_msg(m)
    got = bytes(msg.gen_msg(legacy))
    exp = ref_trxd.encode(m, legacy)
    if got != exp:
        i = next((k for k in range(min(len(got), len(exp))) if got[k] != exp[k]), min(len(got), len(exp)))
        region = "common-hdr" if i < 5 else ("specific-hdr" if i < (6 if m["cls"] == "tx" else (8 if m["ver"] == 0 else 11)) else "burst")
        raise Violation("c04:encoder-differs-from-layout:%s:v%d:%s" % (m["cls"], m["ver"], region),
                        "octet %d: toolkit %s layout %s (len %d vs %d)" % (
                            i, got[i:i + 4].hex(), exp[i:i + 4].hex(), len(got), len(exp)))
    hdr_nonzero = any(got[:6])
    has_burst = (m["cls"] == "tx") or m.get("soft") is not None
    return (["enc/%s/v%d" % (m["cls"], m["ver"])], hdr_nonzero and has_burst)


enc_case = st.fixed_dictionaries({"m": S.any_msg(), "legacy": st.booleans()})


# ---------------------------------------------------------------------------

@st.composite
def datagram(draw):
    cls = draw(st.sampled_from(("tx", "rx")))
    kind = draw(st.sampled_from(("valid", "mutated", "mutated", "glued", "glued", "random")))
    if kind in ("valid", "mutated"):
        m = draw(S.tx_msg() if cls == "tx" else S.rx_msg())
        data = bytearray(ref_trxd.encode(m, draw(st.booleans())))
        if kind == "mutated":
            for _ in range(draw(st.integers(1, 3))):
                op = draw(st.sampled_from(("trunc", "extend", "flip", "hdr", "ver")))
                if op == "trunc" and len(data) > 0:
                    data = data[:draw(st.one_of(st.integers(0, 12), st.integers(0, len(data))))]
                elif op == "extend":
                    data += draw(st.binary(min_size=1, max_size=8))
                elif op == "flip" and len(data) > 0:
                    i = draw(st.integers(0, len(data) - 1))
                    data[i] ^= 1 << draw(st.integers(0, 7))
                elif op == "hdr" and len(data) > 0:
                    i = draw(st.integers(0, min(len(data), 11) - 1))
                    data[i] = draw(st.integers(0, 255))
                elif op == "ver" and len(data) > 0:
                    data[0] = (draw(st.integers(0, 15)) << 4) | (data[0] & 0x0f)
        return {"cls": cls, "data": bytes(data)}
    if kind == "glued":
        ver = draw(st.sampled_from((0, 1)))
        hl = 6 if cls == "tx" else (8 if ver == 0 else 11)
        hdr = bytearray(draw(st.binary(min_size=hl, max_size=hl)))
        hdr[0] = (ver << 4) | (hdr[0] & 0x0f)
        bl = draw(st.sampled_from((0, 1, 147, 148, 149, 150, 151, 296, 443, 444, 445, 446, 447, 592, 740, 741)))
        body = draw(st.binary(min_size=bl, max_size=bl))
        return {"cls": cls, "data": bytes(hdr) + body}
    return {"cls": cls, "data": draw(st.binary(min_size=0, max_size=40))}


def dec_oracle(case):
    cls, data = case["cls"], case["data"]
    msg = tk.new_msg(cls)
    buf = bytearray(data) if cls == "rx" else bytes(data)
    try:
        msg.parse_msg(buf)
    except ValueError:
        return (["rejected/%s" % cls], False)
    got = tk.msg_fields(msg)
    try:
        exp = ref_trxd.decode(cls, data)
    except ValueError as e:
        raise Violation("c04:accepts-what-layout-rejects:%s" % cls, "parse_msg accepted %s (%s)" % (data[:16].hex(), e))
    for k in ("ver", "tn", "fn") + (("pwr",) if cls == "tx" else ("rssi", "toa256")):
        if got[k] != exp[k]:
            raise Violation("c04:decoder-differs-from-layout:%s:%s" % (cls, k),
                            "field %s: toolkit %r layout %r for %s" % (k, got[k], exp[k], data[:12].hex()))
    if cls == "rx" and exp["ver"] == 1:
        if got["nope"] != exp["nope"]:
            raise Violation("c04:decoder-differs-from-layout:rx:nope", "%r vs %r" % (got["nope"], exp["nope"]))
        if got["ci"] != exp["ci"]:
            raise Violation("c04:decoder-differs-from-layout:rx:ci", "%r vs %r" % (got["ci"], exp["ci"]))
        if not exp["nope"]:
            for k in ("mod", "tsc_set", "tsc"):
                if got[k] != exp[k]:
                    raise Violation("c04:decoder-differs-from-layout:rx:%s" % k,
                                    "%r vs %r (mts %02x)" % (got[k], exp[k], data[8]))
    raw = exp["bits_raw"] if cls == "tx" else exp["soft_raw"]
    burst = got["bits"] if cls == "tx" else got["soft"]
    if burst is None:
        if len(raw) != 0:
            raise Violation("c04:burst-dropped:%s" % cls, "%d octets follow the header but no burst was decoded" % len(raw))
    else:
        n = len(burst)
        if list(raw[:n]) != list(burst):
            raise Violation("c04:decoder-differs-from-layout:%s:burst" % cls, "burst octets not those following the header")
        # how much may be cut off the tail: nothing; for Tx everything beyond a GSM/EDGE burst;
        # for v0 Rx the two legacy padding octets
        if n != len(raw):
            ok = (n in (148, 444)) if cls == "tx" else (exp["ver"] == 0 and n == len(raw) - 2)
            if not ok:
                raise Violation("c04:burst-length:%s" % cls, "kept %d of %d burst octets" % (n, len(raw)))
    nt = burst is not None and any(data[:6])
    return (["accepted/%s/v%d/bl%s" % (cls, exp["ver"], "none" if burst is None else len(burst))], nt)


def seq_oracle(case):
    """several messages through the codec in one go, parse_msg() on re-used objects: every step against the layout"""
    objs = {"tx": tk.new_msg("tx"), "rx": tk.new_msg("rx")}
    for k, st_ in enumerate(case["steps"]):
        try:
            enc_oracle(st_)
            data = ref_trxd.encode(st_["m"], st_["legacy"])
            target = objs[st_["m"]["cls"]] if case["reuse"] else tk.new_msg(st_["m"]["cls"])
            target.parse_msg(bytearray(data) if st_["m"]["cls"] == "rx" else data)
            got = tk.msg_fields(target)
            exp = ref_trxd.decode(st_["m"]["cls"], data)
            for f in ("ver", "tn", "fn") + (("pwr",) if st_["m"]["cls"] == "tx" else ("rssi", "toa256")):
                if got[f] != exp[f]:
                    raise Violation("c04:decoder-differs-from-layout:%s:%s" % (st_["m"]["cls"], f), "%r vs %r" % (got[f], exp[f]))
        except Violation as v:
            raise Violation(v.sig + ":in-sequence", "message %d of %d (re-use=%s): %s" % (k, len(case["steps"]), case["reuse"], v.msg))
    return (["seq/%d" % len(case["steps"])], True, {"n": len(case["steps"]), "reuse": case["reuse"]})


seq_case = st.fixed_dictionaries({"reuse": st.booleans(),
                                  "steps": st.lists(st.fixed_dictionaries({"m": S.any_msg(), "legacy": st.booleans()}), min_size=2, max_size=5)})

# ---------------------------------------------------------------------------
# one message object living through a series of in-place changes (as the simulator does: the same RxMsg is patched and
# encoded once per destination): every encoding must be the layout encoding of the object's CURRENT content

def life_oracle(case):
    msg, m = msglife.start(tk, case)
    bkey = "bits" if m["cls"] == "tx" else "soft"
    n_enc = 0
    changes = []
    for k, op in enumerate(case["ops"]):
        if op[0] != "encode":
            r = msglife.apply_op(tk, msg, m, op)
            if r:
                changes.append(r)
            continue
        legacy = bool(op[1])
        try:
            got = bytes(msg.gen_msg(legacy))
        except ValueError as e:
            raise Violation("c04:life:valid-message-refused", "step %d: %r" % (k, e))
        exp = ref_trxd.encode(m, legacy)
        n_enc += 1
        if got != exp:
            i = next((j for j in range(min(len(got), len(exp))) if got[j] != exp[j]), min(len(got), len(exp)))
            hl = 6 if m["cls"] == "tx" else (8 if m["ver"] == 0 else 11)
            raise Violation("c04:encoder-differs-from-layout:%s:v%d:%s:after-in-place-change" % (m["cls"], m["ver"], "hdr" if i < hl else "burst"),
                            "encoding %d of one object (step %d, after changes %r): octet %d toolkit %s layout %s (lengths %d/%d)" % (
                                n_enc, k, changes[-4:], i, got[i:i + 4].hex(), exp[i:i + 4].hex(), len(got), len(exp)))
    return (["life/%s/v%d" % (m["cls"], m["ver"]), "encodings=%d" % min(n_enc, 4)] + sorted(set(changes)), n_enc >= 2 and bool(changes),
            {"cls": m["cls"], "ver": m["ver"], "ops": [o[0] for o in case["ops"]]})


life_case = msglife.life_case


SUBS = [
    Sub("py_object_life", strategy=life_case, oracle=life_oracle, examples={"quick": 800, "thorough": 30000}),
    Sub("py_sequences", strategy=seq_case, oracle=seq_oracle, examples={"quick": 500, "thorough": 20000}),
    Sub("py_encoder_vs_layout", strategy=enc_case, oracle=enc_oracle, examples={"quick": 2500, "thorough": 80000}),
    Sub("py_decoder_vs_layout", strategy=datagram(), oracle=dec_oracle, examples={"quick": 4000, "thorough": 160000}),
]


# ---------------------------------------------------------------------------
# trxcon differential (unmodified trx_if.c behind c/drv_trxif.c)
from harness import trxif, cbuild          # noqa: E402
from harness.core import Ctx               # noqa: E402

_t = {}


def prepare(ctx):
    _t["exe"] = trxif.build(ctx)


def trx():
    import os
    if "exe" not in _t:
        prepare(Ctx("C04", "quick", 1))
    k = ("t", os.getpid())          # one driver process per (possibly forked) worker
    if k not in _t:
        _t[k] = trxif.TrxIf(_t["exe"])
    return _t[k]


def c_rx_oracle(case):
    """toolkit -> trxcon: every v0 burst FakeTRX sends must be decoded by trxcon to the same values"""
    m, legacy = case["m"], case["legacy"]
    data = bytes(tk.build_msg(m).gen_msg(legacy))
    try:
        out = trxif.TrxIf.parse(trx().req("data " + data.hex()))
    except cbuild.DriverCrash as c:
        raise Violation("c04:trxcon-crash:" + c.signature(), c.stderr[-500:])
    bi = out["burst_ind"]
    if bi is None:
        raise Violation("c04:trxcon-rejects-toolkit-burst", "rc=%r for v0 burst len=%d legacy=%s" % (out["rc"], len(m["soft"]), legacy))
    exp = {"fn": m["fn"], "tn": m["tn"], "rssi": m["rssi"], "toa256": m["toa256"], "len": len(m["soft"]), "soft": list(m["soft"])}
    for k, v in exp.items():
        if bi[k] != v:
            raise Violation("c04:trxcon-decodes-differently:%s" % k, "%s: toolkit sent %r, trxcon got %r" % (
                k, v if k != "soft" else "...", bi[k] if k != "soft" else "..."))
    if out["rts"] != ((m["fn"] + 3) % ref_trxd.HYPERFRAME, m["tn"]):
        raise Violation("c04:trxcon-rts", "RTS %r for fn=%d tn=%d (fn_advance 3)" % (out["rts"], m["fn"], m["tn"]))
    return (["c_rx/bl%d/%s" % (len(m["soft"]), "legacy" if legacy else "plain")], any(data[:6]))


def c_tx_oracle(case):
    """trxcon -> toolkit: every burst trxcon emits must be parsed by the toolkit to the values trxcon was given"""
    bits = case["bits"]
    line = "burst %d %d %d %s" % (case["fn"], case["tn"], case["pwr"], bytes(bits).hex() if bits else "-")
    try:
        out = trxif.TrxIf.parse(trx().req(line))
    except cbuild.DriverCrash as c:
        raise Violation("c04:trxcon-crash:" + c.signature(), c.stderr[-500:])
    if len(out["data"]) != 1:
        raise Violation("c04:trxcon-tx-count", "%d datagrams for one burst request" % len(out["data"]))
    msg = tk.new_msg("tx")
    try:
        msg.parse_msg(out["data"][0])
    except ValueError as e:
        raise Violation("c04:toolkit-rejects-trxcon-burst", "%r for %s" % (e, out["data"][0][:12].hex()))
    got = tk.msg_fields(msg)
    exp = {"ver": 0, "fn": case["fn"], "tn": case["tn"], "pwr": case["pwr"], "bits": [int(b) for b in bits] if bits else None}
    for k, v in exp.items():
        if got[k] != v:
            raise Violation("c04:toolkit-decodes-trxcon-differently:%s" % k, "%s: trxcon was given %r, toolkit parsed %r" % (
                k, v if k != "bits" else "...", got[k] if k != "bits" else "..."))
    return (["c_tx/bl%d" % len(bits)], bool(bits) and (case["fn"] or case["tn"] or case["pwr"]))


c_rx_case = st.fixed_dictionaries({"m": S.rx_msg(vers=(0,)), "legacy": st.sampled_from((True, True, False))})
c_tx_case = st.fixed_dictionaries({"fn": S.fn(), "tn": st.integers(0, 7), "pwr": S.biased(0, 255),
                                   "bits": st.one_of(S.hard_bits(148), S.hard_bits(148), S.hard_bits(444), st.just(b""))})

def c_inst_oracle(case):
    """two transceiver instances of one trxcon process used alternately (multi-TRX / multislot operation): every burst of every
    instance must be encoded / decoded from its own request alone - same per-step oracles as above"""
    t = trx()
    try:
        for i in (0, 1):
            t.req("inst %d" % i)
            t.req("open")
        n_rep = 0
        prev = {}
        for k, step in enumerate(case["steps"]):
            t.req("inst %d" % step["inst"])
            try:
                if step["dir"] == "tx":
                    c_tx_oracle(step)
                    if prev.get(step["inst"]) == step["fn"]:
                        n_rep += 1
                    prev[step["inst"]] = step["fn"]
                else:
                    c_rx_oracle(step)
            except Violation as v:
                raise Violation(v.sig + ":two-instances", "step %d of %d on instance %d: %s" % (k, len(case["steps"]), step["inst"], v.msg))
        t.req("inst 0")
    except cbuild.DriverCrash as c:
        raise Violation("c04:trxcon-crash:" + c.signature(), c.stderr[-500:])
    insts = set(s_["inst"] for s_ in case["steps"])
    return (["inst-seq/%d" % len(case["steps"])] + (["same-fn-again"] if n_rep else []), len(insts) == 2 and n_rep > 0,
            {"steps": [(s_["inst"], s_["dir"], s_.get("fn", s_.get("m", {}).get("fn"))) for s_ in case["steps"]]})


@st.composite
def c_inst_case(draw):
    base = draw(S.fn())
    fnst = st.one_of(st.just(base), st.just(base), st.just((base + 1) % ref_trxd.HYPERFRAME), S.fn())
    steps = []
    for _ in range(draw(st.integers(3, 10))):
        inst = draw(st.integers(0, 1))
        if draw(st.integers(0, 3)) > 0:
            steps.append({"dir": "tx", "inst": inst, "fn": draw(fnst), "tn": draw(st.integers(0, 7)), "pwr": draw(S.biased(0, 255)),
                          "bits": draw(st.one_of(S.hard_bits(148), S.hard_bits(444)))})
        else:
            m = draw(S.rx_msg(vers=(0,)))
            m["fn"] = draw(fnst)
            steps.append({"dir": "rx", "inst": inst, "m": m, "legacy": draw(st.booleans())})
    return {"steps": steps}


SUBS += [
    Sub("c_two_instances", strategy=c_inst_case(), oracle=c_inst_oracle, examples={"quick": 400, "thorough": 10000},
        shards={"quick": 1, "thorough": 8}, prepare=prepare),
    Sub("c_rx_toolkit_to_trxcon", strategy=c_rx_case, oracle=c_rx_oracle, examples={"quick": 2500, "thorough": 60000},
        shards={"quick": 1, "thorough": 8}, prepare=prepare),
    Sub("c_tx_trxcon_to_toolkit", strategy=c_tx_case, oracle=c_tx_oracle, examples={"quick": 2500, "thorough": 60000},
        shards={"quick": 1, "thorough": 8}, prepare=prepare),
]
