# C05 - Every TRXC command gets exactly one well-formed response with documented effect
from hypothesis import strategies as st

from harness import simgen
from harness import strategies as S
from harness.core import Sub
from harness.session import Session

RULE = ("histories of 1..40 control datagrams to any transceiver of a generated application (2..5 transceivers) from generated "
        "source addresses: every verb the handlers know (POWERON/POWEROFF/RXTUNE/TXTUNE/MEASURE/SETFH with 1..64 channel "
        "pairs/SETFORMAT/SETPOWER/NOMTXPOWER/RFMUTE/SETTA/FAKE_TOA/FAKE_RSSI/FAKE_CI/FAKE_DROP/FAKE_TRXC_DELAY), unknown verbs, "
        "every argument count 0..N+1, boundary-biased integer arguments, and datagrams without the CMD prefix. Oracle: "
        "TrxModel - exactly one reply to the sender's address 'RSP <verb> <status> <args> [results]\\0' (none for non-CMD), "
        "status/results per documented semantics, effect visible in the anchored state and in later commands. Non-trivial: "
        "history containing a command whose status depends on earlier commands (POWERON after tuning/hopping/power changes, "
        "SETFORMAT renegotiation, MEASURE with a running peer on that frequency).")
LEVEL = "exploration"
ASSUMPTIONS = ["well-formed = single-space separated ASCII, NUL-terminated; decimal integer arguments",
               "known verb with wrong argument count / non-numeric argument, negative FAKE_TOA/FAKE_CI threshold: status not fixed by the property, framing only",
               "trxcon compatibility is checked by sub-check trxcon_roundtrip through the unmodified trx_if.c"]

VERBS = {
    # verb: list of argument strategies (well-formed form)
    "POWERON": [], "POWEROFF": [], "NOMTXPOWER": [],
    "RXTUNE": [st.sampled_from(simgen.FREQ_POOL + [0, 1, 2147483])], "TXTUNE": [st.sampled_from(simgen.FREQ_POOL + [0, 1, 2147483])],
    "MEASURE": [st.sampled_from(simgen.FREQ_POOL + [947000])],
    "SETFORMAT": [st.one_of(st.sampled_from([0, 1, 2, 15, 16, -1]), st.integers(-3, 20))],
    "SETPOWER": [S.biased(-10, 100)], "RFMUTE": [st.sampled_from([0, 1, 2, -1])],
    "SETTA": [st.one_of(st.integers(0, 63), S.biased(-128, 127))],
    "SETSLOT": [st.integers(0, 7), st.integers(0, 13)],
    "FAKE_TRXC_DELAY": [st.sampled_from([0, 0, 1, 200, -5, 2000, 5000, 3600000])],
}


@st.composite
def command(draw):
    kind = draw(st.sampled_from(["plain"] * 8 + ["setfh", "setfh", "fake", "fake", "fake", "unknown", "argc", "argc"]))
    if kind == "plain":
        verb = draw(st.sampled_from(sorted(VERBS) + ["POWERON", "POWERON", "POWEROFF", "RXTUNE", "TXTUNE", "RXTUNE", "TXTUNE", "MEASURE", "SETFORMAT"]))
        return verb, [str(draw(a)) for a in VERBS[verb]]
    if kind == "setfh":
        nch = draw(st.one_of(st.integers(1, 6), st.integers(1, 64), st.sampled_from([7, 8, 9, 63, 64])))
        hsn = draw(st.integers(0, 63))
        args = [str(hsn), str(draw(st.integers(0, 63)))]
        for k in range(nch):
            f = draw(st.sampled_from(simgen.FREQ_POOL)) if nch <= 6 else 935200 + 200 * k
            args += [str(f), str(f - 45000)]
        return "SETFH", args
    if kind == "fake":
        verb = draw(st.sampled_from(["FAKE_TOA", "FAKE_RSSI", "FAKE_CI", "FAKE_DROP"]))
        if draw(st.booleans()):
            return verb, [str(draw(S.biased(-200, 200)))]
        lo = -3 if verb in ("FAKE_RSSI", "FAKE_DROP") else 0
        return verb, [str(draw(S.biased(-200, 200))), str(draw(st.integers(lo, 120)))]
    if kind == "unknown":
        return draw(st.sampled_from(["ECHO", "SETSLOT", "SETTSC", "SETBSIC", "HANDOVER", "NOHANDOVER", "SETRXGAIN", "ADJPOWER",
                                     "FOO", "poweron", "RSP", "CMD"])), [str(draw(st.integers(0, 9))) for _ in range(draw(st.integers(0, 3)))]
    # known verb, any argument count 0..N+1
    verb = draw(st.sampled_from(["POWERON", "POWEROFF", "RXTUNE", "TXTUNE", "MEASURE", "SETFH", "SETFORMAT", "SETPOWER", "NOMTXPOWER",
                                 "RFMUTE", "SETTA", "FAKE_TOA", "FAKE_RSSI", "FAKE_CI", "FAKE_DROP", "FAKE_TRXC_DELAY"]))
    return verb, [str(draw(st.integers(0, 5))) for _ in range(draw(st.integers(0, 5)))]


@st.composite
def case_st(draw):
    cfg = draw(simgen.app_config(max_extra=3))
    n = simgen.n_trx(cfg)
    steps = []
    for _ in range(draw(st.integers(1, 40))):
        t = draw(st.one_of(st.integers(0, n - 1), st.integers(0, 1)))
        src = draw(st.one_of(st.none(), st.none(), st.tuples(st.sampled_from(["127.0.0.1", "10.1.2.3"]), st.integers(1024, 65535))))
        if steps and steps[-1]["op"] == "cmd" and draw(st.integers(0, 6)) == 0:
            steps.append(dict(steps[-1]))          # the same datagram again (an L1 retransmission)
            continue
        if draw(st.integers(0, 7)) == 0:
            # MEASURE on a frequency some transceiver is actually tuned to (resolved when the history runs)
            steps.append({"op": "cmd", "t": t, "verb": "MEASURE", "args": ["@tx%d" % draw(st.integers(0, n - 1))], "src": src})
            continue
        if draw(st.integers(0, 11)) == 0:
            data = draw(st.sampled_from([b"RSP POWERON 0\0", b"IND CLOCK 5\0", b"\0", b"cmd POWERON\0", b" CMD POWERON\0", b"POWERON\0", b"CM", b"XCMD\0"]))
            steps.append({"op": "raw", "t": t, "data": data, "src": src})
        else:
            verb, args = draw(command())
            steps.append({"op": "cmd", "t": t, "verb": verb, "args": args, "src": src})
    if draw(st.integers(0, 3)) == 0:
        # motif: measure a carrier, change the state of the transceiver that radiates it, measure again
        p_, q_ = draw(st.integers(0, n - 1)), draw(st.integers(0, n - 1))
        f = str(draw(st.sampled_from(simgen.FREQ_POOL)))
        change = draw(st.sampled_from([("SETFH", ["3", "0", "890000", "935000", "890200", "935200"]), ("TXTUNE", ["947000"]), ("POWEROFF", []),
                                       ("RFMUTE", ["1"]), ("SETFORMAT", ["1"]), ("RXTUNE", ["947000"])]))
        motif = [{"op": "cmd", "t": p_, "verb": "RXTUNE", "args": [f], "src": None}, {"op": "cmd", "t": p_, "verb": "TXTUNE", "args": [f], "src": None},
                 {"op": "cmd", "t": p_, "verb": "POWERON", "args": [], "src": None},
                 {"op": "cmd", "t": q_, "verb": "MEASURE", "args": ["@tx%d" % p_], "src": None},
                 {"op": "cmd", "t": p_, "verb": change[0], "args": list(change[1]), "src": None},
                 {"op": "cmd", "t": q_, "verb": "MEASURE", "args": [f], "src": None},
                 {"op": "cmd", "t": q_, "verb": "MEASURE", "args": ["@tx%d" % p_], "src": None}]
        k = draw(st.integers(0, len(steps)))
        steps = steps[:k] + motif + steps[k:]
    return {"cfg": cfg, "steps": steps}


def oracle(case):
    s = Session(case["cfg"], {"reply", "power", "clock", "settings"}, "c05")
    try:
        dep = set()
        for st_ in case["steps"]:
            src = tuple(st_["src"]) if st_["src"] else None
            if st_["op"] == "raw":
                s.raw_ctrl(st_["t"], st_["data"], src=src)
                dep.add("non-CMD")
                continue
            i, verb, args = st_["t"], st_["verb"], list(st_["args"])
            for k_, a_ in enumerate(args):
                if a_.startswith("@tx"):
                    f_ = s.model.trx[int(a_[3:]) % s.n].tx
                    args[k_] = str((f_ if f_ is not None else 935000000) // 1000)
            m = s.model.trx[i]
            if verb == "POWERON" and not args and (m.running or m.ready):
                dep.add("POWERON-state-dependent")
            if verb == "SETFORMAT" and len(args) == 1 and m.ver != 0:
                dep.add("SETFORMAT-renegotiation")
            if verb == "MEASURE" and len(args) == 1 and any(x.running and x.fh is None and x.tx == int(args[0]) * 1000 for x in s.model.trx):
                dep.add("MEASURE-hit")
            if verb == "SETFH" and len(args) > 20:
                dep.add("SETFH-long")
            if src:
                dep.add("foreign-source-address")
            s.cmd(i, verb, args, src=src)
        nt = bool(dep & {"POWERON-state-dependent", "SETFORMAT-renegotiation", "MEASURE-hit"})
        sample = {"cfg": case["cfg"], "steps": [(x["t"], x.get("verb"), " ".join(x.get("args", []))[:60]) if x["op"] == "cmd" else (x["t"], "raw", repr(x["data"])) for x in case["steps"]]}
        return (sorted(dep), nt, sample)
    finally:
        s.close()


def argument_lattice(ctx, rec):
    """every known verb x every argument vector of 0..2 (SETFH: 0..5) boundary integers, sent to a fresh and to a tuned, running
    transceiver, model and application compared after every single command (reply, power, settings): the lattice of argument
    boundaries is finite and enumerated instead of sampled"""
    import itertools
    from harness.core import Failure, Violation
    G = [-120, -47, -1, 0, 1, 2, 7, 8, 63, 64, 200, 3600000, 3600001, 935000]
    verbs = ["POWERON", "POWEROFF", "RXTUNE", "TXTUNE", "MEASURE", "SETFORMAT", "SETPOWER", "NOMTXPOWER", "RFMUTE", "SETTA",
             "FAKE_TOA", "FAKE_RSSI", "FAKE_CI", "FAKE_DROP", "FAKE_TRXC_DELAY", "SETFH"]
    cfg = {"bts_port": 5700, "bb_port": 6700, "bts_addr": "127.0.0.1", "bb_addr": "127.0.0.1", "bind_addr": "0.0.0.0", "trx_defs": [("B1", "127.0.0.1", 5700, 1)]}
    fails, seen = [], set()
    n_cmd = 0
    for state in ("fresh", "running"):
        for verb in verbs:
            vectors = [[]] + [[a] for a in G] + [[a, b] for a in G for b in G]
            if verb == "SETFH":
                vectors = [[]] + [list(v) for k in (1, 2, 3, 4, 5) for v in itertools.product([-1, 0, 63, 64, 935000, 890000], repeat=k)][::(1 if ctx.tier == "thorough" else 5)]
            s = None
            # twice, the second time backwards: every vector is also tried from the state the "later" vectors leave behind
            # (a rejected command must not change settings made by an accepted one)
            inter = []
            if verb != "SETFH":
                for single in [[a] for a in G] + [[]]:
                    for pair in ([1, 2], [2, 7], [0, 63], [-47, 2]):
                        inter += [pair, single]          # a (mostly accepted) two-argument form directly before every shorter form
            for args in vectors + vectors[::-1] + inter:
                try:
                    if s is None:
                        s = Session(cfg, {"reply", "power", "clock", "settings"}, "c05")
                        s.cmd(0, "FAKE_TRXC_DELAY", ["0"])
                        if state == "running":
                            for i in range(s.n):
                                s.cmd(i, "RXTUNE", ["890000" if i == 1 else "935000"])
                                s.cmd(i, "TXTUNE", ["935000" if i == 1 else "890000"])
                                s.cmd(i, "POWERON", [])
                    s.cmd(0, verb, [str(a) for a in args])
                    if verb == "FAKE_TRXC_DELAY":
                        s.cmd(0, "FAKE_TRXC_DELAY", ["0"])
                    n_cmd += 1
                except Violation as v:
                    if v.sig not in seen:
                        seen.add(v.sig)
                        fails.append(Failure("argument_lattice", {"state": state, "verb": verb, "args": args}, v.sig, v.msg))
                    if s is not None:
                        s.close()
                    s = None          # model and application may have diverged: start over
                    if len(seen) > 20:
                        break
            if s is not None:
                s.close()
    rec.bulk(n_cmd, n_cmd, {"lattice-commands": n_cmd})
    rec.exhaustive = True
    rec.samples.append({"enumerated": "16 verbs x (0, 1, 2 arguments from %r) x {fresh, tuned+running}" % (G,)})
    return fails


def lattice_replay(case):
    cfg = {"bts_port": 5700, "bb_port": 6700, "bts_addr": "127.0.0.1", "bb_addr": "127.0.0.1", "bind_addr": "0.0.0.0", "trx_defs": [("B1", "127.0.0.1", 5700, 1)]}
    s = Session(cfg, {"reply", "power", "clock", "settings"}, "c05")
    try:
        s.cmd(0, "FAKE_TRXC_DELAY", ["0"])
        if case["state"] == "running":
            for i in range(s.n):
                s.cmd(i, "RXTUNE", ["890000" if i == 1 else "935000"])
                s.cmd(i, "TXTUNE", ["935000" if i == 1 else "890000"])
                s.cmd(i, "POWERON", [])
        s.cmd(0, case["verb"], [str(a) for a in case["args"]])
    finally:
        s.close()


SUBS = [Sub("argument_lattice", fn=argument_lattice), Sub("command_histories", strategy=case_st(), oracle=oracle, examples={"quick": 800, "thorough": 30000})]


SUBS[0].replay = lattice_replay
# ---------------------------------------------------------------------------
# trxcon compatibility: commands are produced by the unmodified trx_if.c, answered by FakeTRX,
# and the answer is fed back into trxcon's response parser.
from harness import trxif, cbuild          # noqa: E402
from harness.core import Ctx, Violation    # noqa: E402

_t = {}


def prepare(ctx):
    _t["exe"] = trxif.build(ctx)


def trx():
    import os
    if "exe" not in _t:
        prepare(Ctx("C05", "quick", 1))
    k = ("t", os.getpid())
    if k not in _t:
        _t[k] = trxif.TrxIf(_t["exe"])
    return _t[k]


ARFCN = st.one_of(st.sampled_from([0, 1, 124, 128, 251, 259, 293, 306, 340, 438, 511, 512, 885, 955, 1023, 125, 300, 900]),
                  st.integers(0, 1023))


@st.composite
def trxcon_cmd(draw):
    k = draw(st.sampled_from(["reset", "poweron", "poweroff", "measure", "setfreq_h0", "setfreq_h0", "setslot", "setta", "setfh", "setfh"]))
    if k in ("reset", "poweron", "poweroff"):
        return k
    if k in ("measure", "setfreq_h0"):
        return "%s %d" % (k, draw(ARFCN))
    if k == "setslot":
        return "setslot %d %d" % (draw(st.integers(0, 7)), draw(st.integers(0, 10)))
    if k == "setta":
        return "setta %d" % draw(S.biased(-128, 127))
    n = draw(st.one_of(st.integers(1, 8), st.sampled_from([1, 16, 32, 63, 64]), st.integers(1, 64)))
    band = draw(st.sampled_from(["gsm900", "gsm900", "dcs", "mixed"]))
    base = {"gsm900": 1, "dcs": 512, "mixed": 100}[band]
    step = {"gsm900": 1, "dcs": 2, "mixed": 9}[band]
    ar = [base + i * step for i in range(n)]
    return "setfh %d %d %d %s" % (draw(st.integers(0, 63)), draw(st.integers(0, n - 1)), n, " ".join(map(str, ar)))


def roundtrip_oracle(case):
    s = Session({"trx_defs": []}, {"reply"}, "c05")
    ms = 1
    t = trx()
    refused = 0
    roundtrips = 0
    longest = 0
    try:
        try:
            t.req("open")
            for c in case["cmds"]:
                out = trxif.TrxIf.parse(t.req("cmd " + c))
                if out["rc"] != 0:
                    refused += 1          # trxcon itself refuses to encode (undefined ARFCN, MA too long)
                    if out["ctrl"]:
                        raise Violation("c05:trxcon:refused-yet-sent", "%r: rc=%d but %r sent" % (c, out["rc"], out["ctrl"]))
                    continue
                pending = list(out["ctrl"])
                if len(pending) != 1:
                    raise Violation("c05:trxcon:command-count", "%r: %d datagrams emitted at once" % (c, len(pending)))
                while pending:
                    d = pending.pop(0)
                    if not d.startswith(b"CMD ") or not d.endswith(b"\0"):
                        raise Violation("c05:trxcon:command-form", "trxcon emitted %r" % d[:40])
                    longest = max(longest, len(d))
                    toks = d[4:-1].decode("ascii").split(" ")
                    verb, args = toks[0], toks[1:]
                    reply = s.cmd(ms, verb, args, raw=d)
                    if len(reply) != 1:
                        raise Violation("c05:trxcon:no-reply", "FakeTRX sent %d replies to %r" % (len(reply), d[:60]))
                    payload = reply[0][2]
                    status = int(payload.split(b" ")[2].rstrip(b"\0"))
                    critical = verb != "SETTA"
                    o2 = trxif.TrxIf.parse(t.req("ctrl " + payload.hex()))
                    roundtrips += 1
                    term = o2["state"]["term"] == 1
                    if status == 0 or not critical:
                        if term or o2["rc"] != 0:
                            raise Violation("c05:trxcon:reply-not-accepted:%s" % verb,
                                            "trxcon (rc=%r, terminated=%r) did not accept %r as the response to %r" % (
                                                o2["rc"], term, payload[:80], d[:80]))
                    else:
                        if not term:
                            raise Violation("c05:trxcon:error-status-not-noticed:%s" % verb, "status %d for critical %r" % (status, d[:40]))
                        break
                    if verb == "MEASURE":
                        exp_arfcn = int(c.split()[1])
                        dbm = int(payload.rstrip(b"\0").split(b" ")[-1])
                        if o2["rsp_measure"] != (exp_arfcn, dbm):
                            raise Violation("c05:trxcon:measure-result", "trxcon surfaced %r, request was ARFCN %d, reply %r" % (
                                o2["rsp_measure"], exp_arfcn, payload))
                    pending += o2["ctrl"]
        except cbuild.DriverCrash as cr:
            raise Violation("c05:trxcon:crash:" + cr.signature(), cr.stderr[-500:])
        cl = ["trxcon-roundtrip"]
        if refused:
            cl.append("trxcon-refused-to-encode")
        if longest > 128:
            cl.append("command>128-octets")
        if longest > 512:
            cl.append("command>512-octets")
        return (cl, roundtrips > 0, {"cmds": [c[:60] for c in case["cmds"]], "roundtrips": roundtrips, "longest_command": longest})
    finally:
        s.close()


SUBS.append(Sub("trxcon_roundtrip", strategy=st.fixed_dictionaries({"cmds": st.lists(trxcon_cmd(), min_size=1, max_size=12)}),
                oracle=roundtrip_oracle, examples={"quick": 500, "thorough": 16000}, shards={"quick": 1, "thorough": 8},
                prepare=prepare))
