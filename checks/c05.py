# C05 - Every TRXC command gets exactly one well-formed response with documented effect
from hypothesis import strategies as st

from harness import simgen
from harness import strategies as S
from harness.core import Sub
from harness.session import Session

RULE = ("histories of 1..40 control datagrams to any transceiver of a generated application (2..5 transceivers) from generated "
        "source addresses: every verb the handlers know (POWERON/POWEROFF/RXTUNE/TXTUNE/MEASURE/SETFH with 1..64 channel "
        "pairs/SETFORMAT/SETPOWER/NOMTXPOWER/RFMUTE/SETTA/FAKE_TOA/FAKE_RSSI/FAKE_CI/FAKE_DROP/FAKE_TRXC_DELAY), unknown verbs, "
        "every argument count 0..N+1, boundary-biased integer arguments, and datagrams without the CMD prefix. Oracle: "
        "TrxModel - exactly one reply to the sender's address 'RSP <verb> <status> <args> [results]\\0' (none for non-CMD), "
        "status/results per documented semantics, effect visible in the anchored state and in later commands. Non-trivial: "
        "history containing a command whose status depends on earlier commands (POWERON after tuning/hopping/power changes, "
        "SETFORMAT renegotiation, MEASURE with a running peer on that frequency).")
LEVEL = "exploration"
ASSUMPTIONS = ["well-formed = single-space separated ASCII, NUL-terminated; decimal integer arguments",
               "known verb with wrong argument count / non-numeric argument, negative FAKE_TOA/FAKE_CI threshold: status not fixed by the property, framing only",
               "trxcon compatibility is checked by sub-check trxcon_roundtrip through the unmodified trx_if.c"]

VERBS = {
    # verb: list of argument strategies (well-formed form)
    "POWERON": [], "POWEROFF": [], "NOMTXPOWER": [],
    "RXTUNE": [st.sampled_from(simgen.FREQ_POOL + [0, 1, 2147483])], "TXTUNE": [st.sampled_from(simgen.FREQ_POOL + [0, 1, 2147483])],
    "MEASURE": [st.sampled_from(simgen.FREQ_POOL + [947000])],
    "SETFORMAT": [st.one_of(st.sampled_from([0, 1, 2, 15, 16, -1]), st.integers(-3, 20))],
    "SETPOWER": [S.biased(-10, 100)], "RFMUTE": [st.sampled_from([0, 1, 2, -1])],
    "SETTA": [st.one_of(st.integers(0, 63), S.biased(-128, 127))],
    "SETSLOT": [st.integers(0, 7), st.integers(0, 13)],
    "FAKE_TRXC_DELAY": [st.sampled_from([0, 0, 1, 200, -5])],
}


@st.composite
def command(draw):
    kind = draw(st.sampled_from(["plain"] * 8 + ["setfh", "setfh", "fake", "fake", "fake", "unknown", "argc", "argc"]))
    if kind == "plain":
        verb = draw(st.sampled_from(sorted(VERBS) + ["POWERON", "POWERON", "POWEROFF", "RXTUNE", "TXTUNE", "RXTUNE", "TXTUNE", "MEASURE", "SETFORMAT"]))
        return verb, [str(draw(a)) for a in VERBS[verb]]
    if kind == "setfh":
        nch = draw(st.one_of(st.integers(1, 6), st.integers(1, 64), st.sampled_from([7, 8, 9, 63, 64])))
        hsn = draw(st.integers(0, 63))
        args = [str(hsn), str(draw(st.integers(0, 63)))]
        for k in range(nch):
            f = draw(st.sampled_from(simgen.FREQ_POOL)) if nch <= 6 else 935200 + 200 * k
            args += [str(f), str(f - 45000)]
        return "SETFH", args
    if kind == "fake":
        verb = draw(st.sampled_from(["FAKE_TOA", "FAKE_RSSI", "FAKE_CI", "FAKE_DROP"]))
        if draw(st.booleans()):
            return verb, [str(draw(S.biased(-200, 200)))]
        lo = -3 if verb in ("FAKE_RSSI", "FAKE_DROP") else 0
        return verb, [str(draw(S.biased(-200, 200))), str(draw(st.integers(lo, 120)))]
    if kind == "unknown":
        return draw(st.sampled_from(["ECHO", "SETSLOT", "SETTSC", "SETBSIC", "HANDOVER", "NOHANDOVER", "SETRXGAIN", "ADJPOWER",
                                     "FOO", "poweron", "RSP", "CMD"])), [str(draw(st.integers(0, 9))) for _ in range(draw(st.integers(0, 3)))]
    # known verb, any argument count 0..N+1
    verb = draw(st.sampled_from(["POWERON", "POWEROFF", "RXTUNE", "TXTUNE", "MEASURE", "SETFH", "SETFORMAT", "SETPOWER", "NOMTXPOWER",
                                 "RFMUTE", "SETTA", "FAKE_TOA", "FAKE_RSSI", "FAKE_CI", "FAKE_DROP", "FAKE_TRXC_DELAY"]))
    return verb, [str(draw(st.integers(0, 5))) for _ in range(draw(st.integers(0, 5)))]


@st.composite
def case_st(draw):
    cfg = draw(simgen.app_config(max_extra=3))
    n = simgen.n_trx(cfg)
    steps = []
    for _ in range(draw(st.integers(1, 40))):
        t = draw(st.one_of(st.integers(0, n - 1), st.integers(0, 1)))
        src = draw(st.one_of(st.none(), st.none(), st.tuples(st.sampled_from(["127.0.0.1", "10.1.2.3"]), st.integers(1024, 65535))))
        if draw(st.integers(0, 11)) == 0:
            data = draw(st.sampled_from([b"RSP POWERON 0\0", b"IND CLOCK 5\0", b"\0", b"cmd POWERON\0", b" CMD POWERON\0", b"POWERON\0", b"CM", b"XCMD\0"]))
            steps.append({"op": "raw", "t": t, "data": data, "src": src})
        else:
            verb, args = draw(command())
            steps.append({"op": "cmd", "t": t, "verb": verb, "args": args, "src": src})
    return {"cfg": cfg, "steps": steps}


def oracle(case):
    s = Session(case["cfg"], {"reply", "power", "clock", "settings"}, "c05")
    try:
        dep = set()
        for st_ in case["steps"]:
            src = tuple(st_["src"]) if st_["src"] else None
            if st_["op"] == "raw":
                s.raw_ctrl(st_["t"], st_["data"], src=src)
                dep.add("non-CMD")
                continue
            i, verb, args = st_["t"], st_["verb"], st_["args"]
            m = s.model.trx[i]
            if verb == "POWERON" and not args and (m.running or m.ready):
                dep.add("POWERON-state-dependent")
            if verb == "SETFORMAT" and len(args) == 1 and m.ver != 0:
                dep.add("SETFORMAT-renegotiation")
            if verb == "MEASURE" and len(args) == 1 and any(x.running and x.fh is None and x.tx == int(args[0]) * 1000 for x in s.model.trx):
                dep.add("MEASURE-hit")
            if verb == "SETFH" and len(args) > 20:
                dep.add("SETFH-long")
            if src:
                dep.add("foreign-source-address")
            s.cmd(i, verb, args, src=src)
        nt = bool(dep & {"POWERON-state-dependent", "SETFORMAT-renegotiation", "MEASURE-hit"})
        sample = {"cfg": case["cfg"], "steps": [(x["t"], x.get("verb"), " ".join(x.get("args", []))[:60]) if x["op"] == "cmd" else (x["t"], "raw", repr(x["data"])) for x in case["steps"]]}
        return (sorted(dep), nt, sample)
    finally:
        s.close()


SUBS = [Sub("command_histories", strategy=case_st(), oracle=oracle, examples={"quick": 800, "thorough": 30000})]
