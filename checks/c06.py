# C06 - Serial link framing (sercomm/HDLC) delivers every message intact
import os

from hypothesis import strategies as st

from harness import cbuild
from harness.core import Sub, Violation, REPO, VERIF, Ctx, HarnessError
from refs import ref_hdlc

RULE = ("operation histories against the unmodified firmware sercomm.c in both builds (HOST_BUILD: 2048-octet receive buffer; "
        "target branch: 256) with the in-tree msgb.c under ASan/UBSan: send(dlci, payload) with payloads of 0..buffer-1 octets "
        "(boundary-biased lengths, octets biased to 7E/7D/00/5E/5D/20), pull(k) moving k octets from transmitter to receiver, "
        "pull-to-end-of-frame, flag-free noise and over-long frames (length >= buffer, any content) injected at frame "
        "boundaries; handlers registered for the firmware's DLCIs 4, 5, 9, 10 plus generated ones (never 126/128). Oracle "
        "(refs/ref_hdlc + queue model): the pulled octet stream is a sequence of well-formed frames (no raw 7E/00 inside, every "
        "7D followed by an escaped 7E/7D/00), each frame is the head of its DLCI's FIFO and no lower DLCI was waiting when it "
        "started; every frame fed to the receiver is delivered exactly once with identical DLCI and payload, in order; after "
        "an over-long frame at most the one following frame is missing; nothing else is delivered; no sanitizer report/panic. "
        "Non-trivial: >=2 DLCIs interleaved and >=1 escaped octet, or an over-long frame followed by >=2 frames.")
LEVEL = "exploration"
ASSUMPTIONS = ["noise is injected only while the receiver is in sync (not in the one-frame resynchronisation window after an over-long frame)",
               "a payload of exactly buffer-size octets is 'not shorter than the buffer' and counts as over-long",
               "compiled for x86-64 by clang; IRQ masking is a no-op (single-threaded driver)"]

BUF = {"host": 2048, "target": 256}
_d = {}


def prepare(ctx):
    b = ctx.build
    lib = os.path.join(REPO, "src/shared/libosmocore")
    common = ["-I", os.path.join(cbuild.CSHIM, "fw"), "-I", os.path.join(lib, "include"), "-I", os.path.join(REPO, "include"),
              "-idirafter", os.path.join(REPO, "src/target/firmware/include"),
              "-DSERCOMM_C=\"%s\"" % os.path.join(REPO, "src/target/firmware/comm/sercomm.c")]
    cfg = ["-I", os.path.join(lib, "include"), "-I", os.path.join(cbuild.CSHIM, "fw/cfgdir/a/b")]
    libobjs = [cbuild.compile_obj(os.path.join(lib, "src", f + ".c"), os.path.join(b, f + ".o"), cfg) for f in ("msgb", "talloc", "panic")]
    for v in ("host", "target"):
        # (the target branch is compiled with the target's ABI: plain char unsigned, as on ARM)
        extra = ["-DHOST_BUILD", "-I", os.path.join(REPO, "src/target/firmware/include/comm")] if v == "host" else ["-funsigned-char"]
        o = cbuild.compile_obj(os.path.join(VERIF, "c", "drv_sercomm.c"), os.path.join(b, "drv_%s.o" % v), common + extra)
        _d["exe_" + v] = cbuild.link([o] + libobjs, os.path.join(b, "drv_sercomm_" + v))


def drv(v):
    if "exe_" + v not in _d:
        prepare(Ctx("C06", "quick", 1))
    k = (v, os.getpid())
    if k not in _d:
        _d[k] = cbuild.Driver(_d["exe_" + v], max_line=(1 << 24) - 16)
    return _d[k]


SPECIAL = bytes([0x7E, 0x7D, 0x00, 0x5E, 0x5D, 0x20, 0x7E, 0x7D, 0x00, 0x03, 0xFF])


@st.composite
def payload_st(draw, maxlen):
    n = draw(st.one_of(st.integers(0, 12), st.integers(0, 60), st.sampled_from([0, 1, maxlen - 1, maxlen - 2, maxlen // 2]), st.integers(0, maxlen)))
    n = min(n, maxlen)
    style = draw(st.sampled_from(["special", "random", "mixed", "mixed"]))
    if style == "special":
        idx = draw(st.binary(min_size=n, max_size=n))
        return bytes(SPECIAL[i % len(SPECIAL)] for i in idx)
    if style == "random":
        return draw(st.binary(min_size=n, max_size=n))
    raw = draw(st.binary(min_size=n, max_size=n))
    return bytes(SPECIAL[b % len(SPECIAL)] if b < 96 else b for b in raw)


@st.composite
def case_st(draw):
    variant = draw(st.sampled_from(["host", "target", "target"]))
    buf = BUF[variant]
    extra = draw(st.lists(st.sampled_from([0, 0, 125, 125, 1, 2, 3, 6, 7, 8, 11, 20, 64, 100, 127]), max_size=2, unique=True))
    dlcis = sorted(set([4, 5, 9, 10] + extra))
    ops = []
    with_overlong = draw(st.booleans())
    for _ in range(draw(st.integers(1, 30))):
        k = draw(st.sampled_from(["S"] * 7 + ["P"] * 4 + ["F", "F", "noise", "noise"] + (["overlong"] if with_overlong else [])))
        if k == "S":
            ops.append(("S", draw(st.sampled_from(dlcis)), draw(payload_st(buf - 1))))
        elif k == "P":
            ops.append(("P", draw(st.one_of(st.integers(1, 8), st.integers(1, 300)))))
        elif k == "F":
            ops.append(("F",))
        elif k == "noise":
            # inter-frame noise never contains a flag; a third of it is built from the protocol's special octets (escape 0x7D, the
            # escaped forms 0x5D / 0x5E, ...) and a quarter ends in an escape octet directly before the next frame's start flag
            style = draw(st.sampled_from(["random", "random", "special"]))
            raw = draw(st.binary(min_size=1, max_size=20))
            nz = bytes((b if b != 0x7E else 0x7F) for b in raw) if style == "random" else \
                bytes([x for x in (SPECIAL[b % len(SPECIAL)] for b in raw) if x != 0x7E] or [0x7D])
            if draw(st.integers(0, 3)) == 0:
                nz = nz[:-1] + b"\x7d"
            ops.append(("noise", nz))
        else:
            n = draw(st.sampled_from([buf, buf + 1, buf + 2, buf + 7, 2 * buf + 3, 5000]))
            fill = draw(st.sampled_from([0x55, 0x00, 0x7D, 0x7E, 0x20, 0x5E]))
            ops.append(("overlong", draw(st.sampled_from(dlcis)), n, fill))
            if draw(st.integers(0, 2)) == 0:
                # recovery must restore the initial state exactly: a second frame just beyond the limit (optionally after an ordinary
                # one) must be dropped like the first
                first = ops.pop()
                if draw(st.booleans()):
                    ops.append(("D",))                 # nothing waiting in the transmitter: no frame is delivered between the two
                ops.append(first)
                if draw(st.integers(0, 3)) == 0:
                    ops.append(("S", draw(st.sampled_from(dlcis)), b"between"))
                ops.append(("overlong", draw(st.sampled_from(dlcis)), buf + draw(st.integers(0, 5)), draw(st.sampled_from([0x55, 0x20, 0x00]))))
            if draw(st.booleans()):
                # directly followed by a maximum-size frame, preferably on a DLCI whose address octet needs escaping
                d = draw(st.sampled_from([x for x in dlcis if x in (0, 125)] or dlcis))
                ops.append(("S", d, bytes([0x41]) * draw(st.sampled_from([buf - 1, buf - 1, buf - 2, buf - 3]))))
                ops.append(("S", draw(st.sampled_from(dlcis)), b"after1"))
                ops.append(("S", draw(st.sampled_from(dlcis)), b"after2"))
    if draw(st.integers(0, 9)) == 0:
        # a flood: a deep backlog of equal-sized messages (counters / totals crossing 2^8 and 2^16), a few messages on other
        # DLCIs queued behind it, everything drained at the end
        size = draw(st.sampled_from([1022, 1023, 1024, 510, 512, 2046, 2047, 64] if variant == "host" else [254, 255, 253, 126, 128, 62]))
        nmsg = draw(st.sampled_from([32, 33, 64, 65, 66, 128, 129, 256, 257, 258, 300, 513]))
        d = draw(st.sampled_from(dlcis))
        pre = [("P", draw(st.integers(1, 40)))] if draw(st.booleans()) else []
        if draw(st.booleans()):
            ops = [("flood", d, nmsg, size)]          # nothing but the flood: totals are exact multiples of the message size
        else:
            ops = [("S", draw(st.sampled_from(dlcis)), b"x")] + pre + [("flood", d, nmsg, size)] + [("S", x, b"tail%d" % x) for x in dlcis[-2:]] + ops[:6]
    return {"variant": variant, "dlcis": dlcis, "ops": ops}


def oracle(case):
    v, dlcis = case["variant"], case["dlcis"]
    buf = BUF[v]
    ops = [tuple(o) for o in case["ops"]]
    # Build the request.  Noise / over-long frames may only be fed at a frame boundary of the wire stream and while the
    # receiver is in sync, so each is preceded by an F (finish the frame in transmission).
    toks = ["G %d" % d for d in dlcis]
    plan = []      # mirrors toks after the G's: (kind, data)
    resync = False
    expanded = []
    for o in ops:
        if o[0] == "flood":
            expanded += [("S", o[1], bytes([0x41 + (j % 26)]) * o[3]) for j in range(o[2])]
        else:
            expanded.append(o)
    ops = expanded
    for o in ops:
        if o[0] == "S":
            toks.append("S %d %s" % (o[1], bytes(o[2]).hex() or "-"))
            plan.append(("S", o[1], bytes(o[2])))
        elif o[0] == "P":
            toks.append("P %d" % o[1])
            plan.append(("pull",))
        elif o[0] == "F":
            toks.append("F")
            plan.append(("pull",))
        elif o[0] == "D":
            toks.append("D")
            plan.append(("pull",))
        elif o[0] == "noise":
            toks.append("F")
            plan.append(("pull",))
            # not inside the resynchronisation window: decided at evaluation time, so always emit the op and let the
            # evaluation below skip it -> instead we simply keep noise out of histories that contain an over-long frame
            if not resync:
                toks.append("N " + bytes(o[1]).hex())
                plan.append(("noise",))
        else:
            toks.append("F")
            plan.append(("pull",))
            frame = ref_hdlc.encode(o[1], bytes([o[3]]) * o[2])       # n payload octets after un-escaping
            resync = True          # from here on the receiver may be out of sync for one frame: no more noise
            toks.append("N " + frame.hex())
            plan.append(("overlong", o[2]))
    toks.append("D")
    plan.append(("pull",))
    try:
        out = drv(v).request(" ".join(toks))
    except cbuild.DriverCrash as c:
        raise Violation("c06:memory-or-panic:%s:%s" % (v, c.signature()), c.stderr[-700:])
    out = out[len(dlcis):]
    if any(l.startswith("RUNAWAY") for l in out):
        raise Violation("c06:tx:transmitter-never-idle", "more than 16 MiB pulled from the transmitter for a history that queued %d octets" % sum(
            len(o[2]) for o in ops if o[0] == "S"))
    if any(l.startswith("HARNESS-OVERFLOW") for l in out):
        raise HarnessError("driver output buffer too small for this history")
    # ---- walk the transcript
    queues = {d: [] for d in dlcis}
    wire = bytearray()
    pending_at = []            # snapshot of waiting DLCIs at each wire offset where a pull op began
    delivered = []
    events = []                # ('pull', wire_start, wire_end) / ('d', dlci, payload) / ('overlong', n)
    it = iter(out)
    pi = 0
    lines = list(out)
    li = 0
    snapshots = []             # (wire offset at which the snapshot holds from, {dlci: n waiting incl. frame in flight})
    sent = []                  # (dlci, payload) in the order they were queued, with the wire offset at queue time
    for kind in plan:
        if kind[0] == "S":
            sent.append((kind[1], kind[2], len(wire)))
            continue
        # deliveries printed by this op come first, then its "p"/"n" line
        while li < len(lines) and lines[li].startswith("d "):
            t = lines[li].split()
            delivered.append((int(t[1]), bytes.fromhex(t[2]) if t[2] != "-" else b"", len(events)))
            events.append(("d", int(t[1])))
            li += 1
        if li >= len(lines):
            raise HarnessError("driver transcript too short")
        t = lines[li].split()
        li += 1
        if kind[0] == "pull":
            if t[0] != "p":
                raise HarnessError("expected p line, got %r" % lines[li - 1][:40])
            chunk = bytes.fromhex(t[1]) if t[1] != "-" else b""
            events.append(("pull", len(wire), len(wire) + len(chunk)))
            wire += chunk
        else:
            if t[0] != "n":
                raise HarnessError("expected n line, got %r" % lines[li - 1][:40])
            events.append((kind[0], len(wire)) + tuple(kind[1:]))
    if li != len(lines):
        raise Violation("c06:unexpected-delivery", "messages delivered outside any receive operation: %r" % lines[li:li + 2])
    # 1. wire format
    frames, err = ref_hdlc.split_frames(bytes(wire))
    if err:
        raise Violation("c06:wire-format:%s" % err.split(" at ")[0].split(" offset")[0], err)
    if frames and frames[-1][1] is None:
        raise Violation("c06:wire-format:unterminated", "transmitter went idle inside a frame")
    # 2. every frame on the wire is the FIFO head of its DLCI, lowest waiting DLCI first
    waiting = {d: [] for d in dlcis}
    si = 0
    escaped = False
    interleaved = set()
    for (start, end, dlci, payload) in frames:
        while si < len(sent) and sent[si][2] <= start:
            waiting[sent[si][0]].append(sent[si][1])
            si += 1
        if dlci not in waiting or not waiting[dlci]:
            raise Violation("c06:tx:frame-never-queued", "frame for DLCI %r on the wire, nothing queued for it" % dlci)
        if waiting[dlci][0] != payload:
            kind = "reordered" if payload in waiting[dlci] else "payload-corrupted"
            raise Violation("c06:tx:%s" % kind, "DLCI %d: wire carries %s, FIFO head is %s" % (dlci, payload[:12].hex(), waiting[dlci][0][:12].hex()))
        lower = [d for d in dlcis if d < dlci and waiting[d]]
        if lower:
            raise Violation("c06:tx:priority", "frame for DLCI %d started while DLCI %d was waiting" % (dlci, lower[0]))
        waiting[dlci].pop(0)
        interleaved.add(dlci)
        if len(ref_hdlc.encode(dlci, payload)) > len(payload) + 4:
            escaped = True
    while si < len(sent):
        waiting[sent[si][0]].append(sent[si][1])
        si += 1
    left = sum(len(q) for q in waiting.values())
    if left:
        raise Violation("c06:tx:message-never-transmitted", "%d queued message(s) never appeared on the wire" % left)
    # 3. deliveries: each completed frame exactly once, in order; after an over-long frame at most the next one missing
    overlong_at = [e[1] for e in events if e[0] == "overlong"]
    exp = [(dlci, payload, end) for (start, end, dlci, payload) in frames]
    got = [(d, p) for (d, p, _) in delivered]
    n_after_overlong = 0
    may_lose = []
    for k, (dlci, payload, end) in enumerate(exp):
        start = frames[k][0]
        prev_end = frames[k - 1][1] + 1 if k else 0
        may_lose.append(any(prev_end <= o <= start for o in overlong_at))
        if any(o <= start for o in overlong_at):
            n_after_overlong += 1
    # align deliveries with the frames fed to the receiver; a frame right after an over-long one may be missing
    # (identical messages make a greedy alignment ambiguous, so all alignments are tried)
    cur = {0}                       # possible numbers of deliveries consumed so far
    for k in range(len(exp)):
        nxt = set()
        for gi in cur:
            if gi < len(got) and got[gi] == exp[k][:2]:
                nxt.add(gi + 1)
            if may_lose[k]:
                nxt.add(gi)
        cur = nxt
        if not cur:
            break
    lost = (len(exp) - len(got)) if len(got) in cur else None
    if lost is None:
        # explain the first point of disagreement with a greedy walk
        gi = 0
        for k, (dlci, payload, end) in enumerate(exp):
            if gi < len(got) and got[gi] == (dlci, payload):
                gi += 1
                continue
            if may_lose[k]:
                continue
            if gi < len(got) and got[gi][0] == dlci and got[gi][1] != payload:
                raise Violation("c06:rx:payload-corrupted", "DLCI %d: sent %s (%d octets), delivered %s (%d octets)" % (
                    dlci, payload[:12].hex(), len(payload), got[gi][1][:12].hex(), len(got[gi][1])))
            raise Violation("c06:rx:message-lost", "frame %d (DLCI %d, %d octets) was fed to the receiver but not delivered next (next delivery: %r)" % (
                k, dlci, len(payload), got[gi][:1] if gi < len(got) else None))
        raise Violation("c06:rx:spurious-delivery", "delivered %r which was never sent (or twice)" % (got[gi][0] if gi < len(got) else None,))
    ol = len(overlong_at)
    cl = [v]
    if len(sent) >= 64:
        cl.append("deep-backlog")
    if len(interleaved) >= 2:
        cl.append(">=2 DLCIs")
    if escaped:
        cl.append("escaped-octets")
    if ol:
        cl.append("overlong")
    if any(e[0] == "noise" for e in events):
        cl.append("noise-between-frames")
    if lost:
        cl.append("frame-lost-in-resync")
    if any(len(p) >= buf - 2 for (_, p, _) in exp):
        cl.append("max-size-payload")
    nt = (len(interleaved) >= 2 and escaped) or (ol and n_after_overlong >= 2)
    return (cl, bool(nt), {"variant": v, "ops": [(o[0], o[1] if len(o) > 1 and not isinstance(o[1], bytes) else None, (len(o[2]) if len(o) > 2 and isinstance(o[2], bytes) else (o[2] if len(o) > 2 else None))) for o in ops][:30],
                           "frames_on_wire": len(frames), "delivered": len(got)})


SUBS = [Sub("framing_histories", strategy=case_st(), oracle=oracle, examples={"quick": 1500, "thorough": 50000},
            shards={"quick": 1, "thorough": 16}, prepare=prepare)]
