# C07 - Frequency hopping follows 3GPP TS 45.002 6.2.3 in simulator and firmware
import multiprocessing as mp
import os
import subprocess
from concurrent.futures import ThreadPoolExecutor

from hypothesis import strategies as st

from harness import cbuild, tk
from harness import strategies as S
from harness.core import Sub, Failure, HarnessError, Violation, REPO, VERIF, Ctx
from refs import ref_hop

import gsm_shared

RULE = ("firmware (unmodified rfch.c via rfch_get_params): complete enumeration of HSN 1..63 x T1R 0..63 x T2 x T3 x N 1..64 "
        "at MAIO in {0,1,N-1,63} (thorough; quick: MAIO 0 and N-1, T1R on a seed-rotated stride of 4) plus HSN 0 over every FN "
        "(thorough: N 1..64; quick: every 7th N); simulator: HoppingParams.resolve enumerated over all (HSN 0..63, T2, T3, N) "
        "with rotating T1/MAIO, plus Hypothesis with arbitrary channel lists (tuples as the transceiver stores them; sorted, reversed, unsorted and "
        "with repeated channels; with the firmware's band flag bits 0x8000/0x4000 on all, none or some entries - the enumeration's table carries them too), "
        "MAIO 0..63 and raw FN, each case also sent to the firmware driver (direct agreement). Oracle: refs/ref_hop "
        "(spec text with div/mod). Non-trivial: HSN != 0 and M' >= N (deviation branch) - counted.")
LEVEL = "exploration"
ASSUMPTIONS = ["RNTABLE in refs/ref_hop.py and c/drv_rfch.c is TS 45.002 table 6 (it agrees with both implementations)",
               "firmware compiled for x86-64 by clang with ASan/UBSan"]


def build(ctx, uchar=False):
    """uchar: plain 'char' unsigned as on the firmware's real target (ARM ABI); the enumeration runs both builds"""
    b = ctx.build
    sfx = "_uc" if uchar else ""
    inc = cbuild.FW_INC + ["-I", os.path.join(cbuild.CSHIM, "fw/cfgdir/a/b")] + (["-funsigned-char"] if uchar else [])
    objs = [
        cbuild.compile_obj(os.path.join(REPO, "src/target/firmware/layer1/rfch.c"), os.path.join(b, "rfch%s.o" % sfx), inc),
        cbuild.compile_obj(os.path.join(REPO, "src/shared/libosmocore/src/gsm/gsm_utils.c"), os.path.join(b, "gsm_utils%s.o" % sfx), inc),
        cbuild.compile_obj(os.path.join(VERIF, "c", "drv_rfch.c"), os.path.join(b, "drv%s.o" % sfx), inc),
    ]
    stubs = os.path.join(b, "stubs%s.c" % sfx)
    cbuild.weak_stubs(objs, stubs, defined_elsewhere=["l1s"])
    objs.append(cbuild.compile_obj(stubs, os.path.join(b, "stubs%s.o" % sfx), [], sanitize=False))
    return cbuild.link(objs, os.path.join(b, "drv_rfch" + sfx))


def run_drv(exe, args):
    env = dict(os.environ)
    env.update(cbuild.SAN_ENV)
    return cbuild.run_bounded([exe] + [str(a) for a in args], env=env)


def fw_sweep(ctx, rec):
    fails = fw_sweep_variant(ctx, rec, False)
    have = set(f.sig for f in fails)
    for f in fw_sweep_variant(ctx, rec, True):
        if f.sig not in have:
            f.sig += ":unsigned-char-build"
            f.case = dict(f.case, unsigned_char=True)
            fails.append(f)
    return fails


def fw_sweep_variant(ctx, rec, uchar):
    exe = build(ctx, uchar)
    jobs = []
    HY = 2715648
    if ctx.tier == "thorough":
        for mm in range(4):
            for h in range(0, 64, 4):
                jobs.append(["sweep", mm, h, h + 4, 1, 0])
        step = HY // 16 + 1
        for i in range(16):
            jobs.append(["cyclic", i * step, min(HY, (i + 1) * step), 1])
    else:
        for mm in (0, 2):
            for h in range(0, 64, 8):
                jobs.append(["sweep", mm, h, h + 8, 4, ctx.seed % 4])
        step = HY // 8 + 1
        for i in range(8):
            jobs.append(["cyclic", i * step, min(HY, (i + 1) * step), 7])
    with ThreadPoolExecutor(16) as ex:
        results = list(ex.map(lambda a: (a, run_drv(exe, a)), jobs))
    fails, seen = [], set()
    for args, r in results:
        if r.returncode != 0:
            sig = "c07:fw-sanitizer-or-crash"
            if sig not in seen:
                seen.add(sig)
                fails.append(Failure("fw_enumeration", {"args": args}, sig, (r.stderr or "")[-800:]))
            continue
        done = [l for l in r.stdout.splitlines() if l.startswith("DONE")]
        if not done:
            raise HarnessError("no DONE line from drv_rfch: %r" % r.stdout[-300:])
        kv = dict(x.split("=") for x in done[0].split()[1:])
        ev, dev = int(kv["evals"]), int(kv["deviation"])
        rec.bulk(ev, dev if args[0] == "sweep" else 0, {"fw:" + args[0]: ev, "fw:deviation-branch": dev})
        for l in r.stdout.splitlines():
            if l.startswith("MISMATCH"):
                hsn = int(l.split()[1].split("=")[1])
                sig = "c07:fw-differs-from-spec:%s" % ("cyclic" if hsn == 0 else "pseudo-random")
                if sig not in seen:
                    seen.add(sig)
                    fails.append(Failure("fw_enumeration", {"args": args, "line": l}, sig, l))
    rec.exhaustive = (ctx.tier == "thorough")
    rec.samples.append({"driver_jobs": [" ".join(map(str, j)) for j in jobs[:3]], "n_jobs": len(jobs)})
    return fails


def _py_worker(arg):
    hsn_lo, hsn_hi, seed = arg
    HP = gsm_shared.HoppingParams
    n_eval = n_dev = 0
    bad = None
    for hsn in range(hsn_lo, hsn_hi):
        for n in range(1, 65):
            ma = [100 + 3 * i for i in range(n)]
            for mm, maio in enumerate((0, n - 1, 63, 1)):
                if (hsn + n + mm + seed) % 4:
                    continue            # one MAIO flavour per (hsn, n), rotating
                hp = HP(hsn, maio, ma)
                nb = ref_hop.nbin(n)
                for t2 in range(26):
                    for t3 in range(51):
                        t1 = (hsn * 31 + n * 7 + t2 * 3 + t3 + seed) % 2048
                        fn = ref_hop.fn_from_t(t1, t2, t3)
                        got = hp.resolve(fn)
                        e = ref_hop.mai(hsn, maio, n, fn)
                        n_eval += 1
                        if hsn and (t2 + ref_hop.RNTABLE[ref_hop.xor6(hsn, t1 % 64) + t3]) % (1 << nb) >= n:
                            n_dev += 1
                        if got != ma[e] and bad is None:
                            bad = {"hsn": hsn, "maio": maio, "ma": ma, "fn": fn, "got": got, "exp": ma[e]}
    return n_eval, n_dev, bad


def py_sweep(ctx, rec):
    jobs = [(h, h + 4, ctx.seed) for h in range(0, 64, 4)]
    with mp.get_context("fork").Pool(16) as pool:
        out = pool.map(_py_worker, jobs)
    fails = []
    for n_eval, n_dev, bad in out:
        rec.bulk(n_eval, n_dev, {"py:resolve": n_eval, "py:deviation-branch": n_dev})
        if bad and not fails:
            sig = "c07:py-differs-from-spec:%s" % ("cyclic" if bad["hsn"] == 0 else "pseudo-random")
            fails.append(Failure("py_enumeration", bad, sig, "resolve(fn=%d) hsn=%d maio=%d N=%d -> %r, spec says %r" % (
                bad["fn"], bad["hsn"], bad["maio"], len(bad["ma"]), bad["got"], bad["exp"])))
    rec.exhaustive = True
    rec.samples.append({"hsn": 5, "maio": 0, "n": 3, "fn": 1000, "resolve": "HoppingParams(5,0,[100,103,106]).resolve(1000)"})
    return fails


def py_stateless(ctx, rec):
    """resolve() must be a function of (parameters, FN) alone: ONE HoppingParams object is walked through consecutive
    frames across every superframe boundary (all 2048 of them), through a long consecutive run, across the hyperframe
    wrap and then in scrambled order; every answer is compared with the specification (history independence)."""
    import random as _r
    HY = 2715648
    rng = _r.Random(ctx.seed)
    fails = []
    n_eval = n_dev = 0
    params = [(0, 0, 5), (0, 3, 64), (1, 0, 3), (17, 2, 7), (63, 63, 64), (32, 1, 33), (5, 0, 1), (44, 10, 12)]
    params += [(rng.randrange(64), rng.randrange(64), rng.randrange(1, 65)) for _ in range(6 if ctx.tier == "quick" else 40)]
    for (hsn, maio, n) in params:
        ma = [100 + 3 * i for i in range(n)]
        hp = gsm_shared.HoppingParams(hsn, maio, ma)
        seqs = []
        for k in range(1, 2048):
            seqs.append(range(k * 1326 - 2, k * 1326 + 3))
        seqs.append(range(0, 8000))
        seqs.append(list(range(HY - 1500, HY)) + list(range(0, 1500)))
        scr = [rng.randrange(HY) for _ in range(3000)]
        seqs.append(scr)
        seqs.append(sorted(scr))
        seqs.append(list(reversed(range(1326 * 63 - 5, 1326 * 64 + 5))))
        bad = None
        for sq in seqs:
            for fn in sq:
                got = hp.resolve(fn)
                e = ma[ref_hop.mai(hsn, maio, n, fn)]
                n_eval += 1
                if got != e and bad is None:
                    bad = {"hsn": hsn, "maio": maio, "n": n, "fn": fn, "got": got, "exp": e}
        if bad and not fails:
            fails.append(Failure("py_stateless", bad, "c07:py-resolve-depends-on-history",
                                 "one HoppingParams object walked through consecutive frames: resolve(%d) hsn=%d maio=%d N=%d -> %r, spec %r" % (
                                     bad["fn"], hsn, maio, n, bad["got"], bad["exp"])))
    rec.bulk(n_eval, n_eval, {"py:stateless-walk": n_eval}, [{"params": params[3], "walk": "consecutive frames around every k*1326, 0..8000, the wrap, scrambled"}])
    return fails


def py_stateless_replay(case):
    raise HarnessError("deterministic enumeration: re-run the check")


def py_replay(case):
    if "ma" not in case:
        return hyp_oracle(case)
    hp = gsm_shared.HoppingParams(case["hsn"], case["maio"], case["ma"])
    got = hp.resolve(case["fn"])
    e = case["ma"][ref_hop.mai(case["hsn"], case["maio"], len(case["ma"]), case["fn"])]
    if got != e:
        raise Violation("c07:py-differs-from-spec:%s" % ("cyclic" if case["hsn"] == 0 else "pseudo-random"),
                        "got %r expected %r" % (got, e))


# --- Hypothesis: arbitrary channel lists, raw FN, three-way agreement --------
_drv = {}


def prepare(ctx):
    _drv["exe"] = build(ctx)


def driver():
    if "exe" not in _drv:
        prepare(Ctx("C07", "quick", 1))
    k = ("d", os.getpid())
    if k not in _drv:
        _drv[k] = cbuild.Driver(_drv["exe"], ["query"], max_line=4000)
    return _drv[k]


@st.composite
def hop_case(draw):
    n = draw(st.one_of(st.integers(1, 64), st.sampled_from((1, 2, 3, 4, 5, 7, 8, 9, 15, 16, 17, 31, 32, 33, 63, 64))))
    # n distinct ARFCNs: arithmetic progression modulo 1024 with an odd step (cheap to draw, injective)
    base, step = draw(st.integers(0, 1023)), draw(st.sampled_from((1, 3, 5, 7, 13, 101, 511, 1023)))
    arfcns = [(base + i * step) % 1024 for i in range(n)]
    order = draw(st.sampled_from(["asis", "sorted", "reversed", "dups"]))
    if order == "sorted":
        arfcns.sort()
    elif order == "reversed":
        arfcns.sort(reverse=True)
    elif order == "dups" and n > 1:
        # the same channel more than once in the allocation (the result is still MA[MAI])
        m_ = draw(st.integers(1, n - 1))
        arfcns = [arfcns[i % m_] for i in range(n)]
    # the firmware carries ARFCNs with band flag bits (ARFCN_PCS 0x8000, ARFCN_UPLINK 0x4000): part of the channel identity
    flags = draw(st.sampled_from([0, 0, 0x8000, 0x4000, 0xc000, "mixed"]))
    if flags == "mixed":
        arfcns = [a | ((0, 0x8000, 0x4000, 0xc000)[(a * 7 + i) % 4]) for i, a in enumerate(arfcns)]
    else:
        arfcns = [a | flags for a in arfcns]
    return {"hsn": draw(st.integers(0, 63)), "maio": draw(st.one_of(st.integers(0, 63), st.integers(0, n - 1))),
            "arfcns": arfcns, "fn": draw(S.fn()), "tuples": draw(st.booleans())}


def hyp_oracle(case):
    hsn, maio, ar, fn = case["hsn"], case["maio"], case["arfcns"], case["fn"]
    n = len(ar)
    ma = [(a * 1000 + 7, a * 1000 + 45007) for a in ar] if case["tuples"] else list(ar)
    got = gsm_shared.HoppingParams(hsn, maio, ma).resolve(fn)
    e = ref_hop.mai(hsn, maio, n, fn)
    kind = "cyclic" if hsn == 0 else "pseudo-random"
    if got != ma[e]:
        raise Violation("c07:py-differs-from-spec:%s" % kind,
                        "resolve(%d) hsn=%d maio=%d N=%d -> %r, spec MAI %d -> %r" % (fn, hsn, maio, n, got, e, ma[e]))
    try:
        out = driver().request("%d %d %d %d %s" % (hsn, maio, n, fn, " ".join(map(str, ar))))
    except cbuild.DriverCrash as c:
        raise Violation("c07:fw-crash:" + c.signature(), c.stderr[-600:])
    fw = int(out[0].split()[1])
    if fw != ar[e]:
        raise Violation("c07:fw-differs-from-spec:%s" % kind, "firmware ARFCN %d, spec MAI %d -> %d" % (fw, e, ar[e]))
    py_arfcn = got[0] // 1000 if case["tuples"] else got
    if py_arfcn != fw:
        raise Violation("c07:py-fw-disagree", "python %r firmware %r" % (py_arfcn, fw))
    dev = False
    if hsn:
        t1r, t2, t3 = (fn // 1326) % 64, fn % 26, fn % 51
        dev = (t2 + ref_hop.RNTABLE[ref_hop.xor6(hsn, t1r) + t3]) % (1 << ref_hop.nbin(n)) >= n
    return (["cyclic" if hsn == 0 else ("deviation" if dev else "direct")], bool(dev))


def fw_replay(case):
    exe = build(Ctx("C07", "quick", 1), bool(case.get("unsigned_char")))
    r = run_drv(exe, case["args"])
    for l in r.stdout.splitlines():
        if l.startswith("MISMATCH"):
            raise Violation("c07:fw-differs-from-spec", l)
    if r.returncode != 0:
        raise Violation("c07:fw-sanitizer-or-crash", r.stderr[-500:])


SUBS = [
    Sub("fw_enumeration", fn=fw_sweep),
    Sub("py_enumeration", fn=py_sweep),
    Sub("py_stateless", fn=py_stateless),
    Sub("three_way_random", strategy=hop_case(), oracle=hyp_oracle, examples={"quick": 3000, "thorough": 40000},
        shards={"quick": 1, "thorough": 8}, prepare=prepare),
]
SUBS[0].replay = fw_replay
SUBS[1].replay = py_replay
SUBS[2].replay = py_stateless_replay
