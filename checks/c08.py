# C08 - Firmware TDMA scheduler runs each item exactly in its scheduled frame
import os

from hypothesis import strategies as st

from harness import cbuild
from harness.core import Sub, Violation, REPO, VERIF, Ctx, HarnessError

RULE = ("histories of 1..70 operations against the unmodified firmware tdma_sched.c (ASan/UBSan): tdma_schedule(offset 0..24, one of "
        "7 callbacks (one of which schedules a follow-up item 0..3 frames ahead when it runs), p1, p2, p3, priority in int16), tdma_schedule_set (sets of 1..6 frames with 0..3 items per frame, "
        "end-of-frame / end-of-set markers, own flags), advance, execute, reset (also 256 times in a row), flag scan; the ring start position is randomised "
        "by 0..60 initial advances; half of the histories execute on every frame. Oracle: RingModel (25 buckets x 8 items) - after "
        "every execute the multiset of recorded calls (callback, p1, p2, p3) equals the model's bucket, priorities are "
        "non-decreasing in call order, the return value is the item count, a second execute in the same frame runs nothing; "
        "return codes of schedule* (0 / number of frame separators / -1 exactly when a bucket is full); an overflowing "
        "tdma_schedule changes nothing. Non-trivial: a bucket with >=3 items of >=2 distinct priorities executed after the ring "
        "index wrapped, or a set spanning the wrap.")
LEVEL = "exploration"
ASSUMPTIONS = ["items of a set that overflowed midway, and items of the current bucket at reset, may or may not remain (the property only fixes the error and that nothing else is disturbed)",
               "callbacks report success; one callback kind schedules a follow-up item 0..3 frames ahead (the scheduler documents that, and that priorities do not apply to items added to the running frame)", "compiled for x86-64 by clang"]

NB, CAP = 25, 8
_d = {}


def prepare(ctx):
    # two builds of the unmodified scheduler: the host's ABI and -funsigned-char (plain char is unsigned on the firmware's real target)
    b = ctx.build
    for sfx, uc in (("", []), ("_uc", ["-funsigned-char"])):
        inc = cbuild.FW_INC + uc
        objs = [cbuild.compile_obj(os.path.join(REPO, "src/target/firmware/layer1/tdma_sched.c"), os.path.join(b, "tdma_sched%s.o" % sfx), inc),
                cbuild.compile_obj(os.path.join(VERIF, "c", "drv_tdma.c"), os.path.join(b, "drv_tdma%s.o" % sfx), inc)]
        stubs = os.path.join(b, "stubs%s.c" % sfx)
        cbuild.weak_stubs(objs, stubs)
        objs.append(cbuild.compile_obj(stubs, os.path.join(b, "stubs%s.o" % sfx), [], sanitize=False))
        _d["exe" + sfx] = cbuild.link(objs, os.path.join(b, "drv_tdma" + sfx))


def drv(uchar=False):
    if "exe" not in _d:
        prepare(Ctx("C08", "quick", 1))
    k = ("d", os.getpid(), bool(uchar))
    if k not in _d:
        _d[k] = cbuild.Driver(_d["exe_uc" if uchar else "exe"], max_line=(1 << 20) - 16)
    return _d[k]


PRIO = st.one_of(st.sampled_from([-32768, -1, 0, 1, 32767, 5, 5, -5]), st.integers(-32768, 32767), st.integers(-3, 3))


@st.composite
def op_st(draw, every_frame):
    k = draw(st.sampled_from(["S"] * 8 + ["T"] * 3 + (["F"] * 5 if every_frame else ["A"] * 4 + ["X"] * 4) + ["R", "G"] + (["R256"] if draw(st.integers(0, 3)) == 0 else [])))
    if k == "S":
        return ("S", draw(st.one_of(st.integers(0, 24), st.sampled_from([0, 1, 2, 3, 24]))), draw(st.sampled_from([0, 1, 2, 3, 4, 5, 6, 6])), draw(st.integers(0, 255)), draw(st.integers(0, 255)),
                draw(st.integers(0, 65535)), draw(PRIO))
    if k == "T":
        items = []
        for fr in range(draw(st.integers(1, 6))):
            for _ in range(draw(st.integers(0, 3))):
                items.append(("i", draw(st.sampled_from([0, 1, 2, 3, 4, 5, 6])), draw(st.integers(0, 255)), draw(st.integers(0, 255)), draw(PRIO), draw(st.integers(0, 3))))
            items.append(("f",))
        if draw(st.booleans()):
            items.pop()          # the last end-of-frame marker is optional
        return ("T", draw(st.one_of(st.integers(0, 24), st.sampled_from([0, 1, 2, 22, 23, 24]))), draw(st.integers(0, 65535)), items)
    return (k,)


@st.composite
def case_st(draw):
    every = draw(st.booleans())
    burst = draw(st.integers(0, 9)) == 0       # occasionally hammer one bucket to reach the capacity limit
    ops = draw(st.lists(op_st(every), min_size=1, max_size=70))
    if burst:
        off = draw(st.integers(0, 24))
        ops = [("S", off, i % 6, i, i, i, draw(PRIO)) for i in range(draw(st.integers(7, 11)))] + ops
    if draw(st.integers(0, 5)) == 0:
        # one item in EVERY bucket, a reset, then a full turn of the ring: whatever the reset left behind in any bucket runs
        k = draw(st.integers(0, len(ops)))
        fill = [("S", off, off % 6, off, 255 - off, 1000 + off, draw(PRIO)) for off in range(25)]
        # (also after 2, 255, 256, 257 or 512 resets in a row: counters of the reset must not wrap into "nothing to do")
        nres = draw(st.sampled_from([1, 1, 2, 255, 256, 256, 257, 512]))
        ops = ops[:k] + fill + [("R",)] * nres + [("F",)] * 26 + ops[k:]
    return {"start": draw(st.one_of(st.integers(0, 60), st.sampled_from([0, 23, 24, 25, 49]))), "ops": ops, "uchar": draw(st.booleans())}


def expand(ops):
    out = []
    for o in ops:
        if o[0] == "F":       # "one frame": execute, then advance
            out += [("X",), ("A",)]
        elif o[0] == "R256":  # the scheduler is reset 256 times in a row (e.g. repeated cell re-selection attempts)
            out += [("R",)] * 256
        else:
            out.append(tuple(o))
    return out


def oracle(case):
    ops = expand([tuple(o) if not isinstance(o, tuple) else o for o in case["ops"]])
    toks = ["A"] * case["start"]
    for o in ops:
        if o[0] == "S":
            toks.append("S %d %d %d %d %d %d" % o[1:])
        elif o[0] == "T":
            s = "T %d %d %d" % (o[1], o[2], len(o[3]))
            for it in o[3]:
                it = tuple(it)
                s += " f" if it[0] == "f" else " i %d %d %d %d %d" % it[1:]
            toks.append(s)
        else:
            toks.append(o[0])
    try:
        out = drv(case.get("uchar", False)).request(" ".join(toks))
    except cbuild.DriverCrash as c:
        raise Violation("c08:memory:" + c.signature(), c.stderr[-600:])
    # the firmware prints diagnostics (puts/printf) on the same stream: keep protocol lines only
    out = [l for l in out if l[:2] in ("s ", "t ", "x ", "g ", "c ") or l in ("a", "r")]
    out = out[case["start"]:]
    # ---- RingModel
    buckets = [[] for _ in range(NB)]     # items: dict(cb,p1,p2,p3,prio,maybe)
    cur = case["start"] % NB
    wrapped = case["start"] >= NB
    degraded = False
    executed_in_frame = False
    nontrivial = False
    classes = set()
    for o, line in zip(ops, out):
        t = line.split()
        if o[0] == "S":
            _, off, cb, p1, p2, p3, prio = o
            b = buckets[(cur + off) % NB]
            lo, hi = sum(1 for x in b if not x["maybe"]), len(b)
            rc = int(t[1])
            if degraded:
                continue
            if lo >= CAP:
                if rc != -1:
                    raise Violation("c08:overflow-not-reported", "bucket holds %d items, tdma_schedule returned %d" % (lo, rc))
                classes.add("bucket-overflow")
            elif hi < CAP:
                if rc != 0:
                    raise Violation("c08:schedule-refused", "bucket holds %d items, tdma_schedule returned %d" % (hi, rc))
                b.append({"cb": cb, "p1": p1, "p2": p2, "p3": p3, "prio": prio, "maybe": False})
            else:
                degraded = True
        elif o[0] == "T":
            _, off, p3, items = o
            rc = int(t[1])
            if degraded:
                continue
            fo = off
            seps = 0
            overflow = False
            added = []
            for it in items:
                it = tuple(it)
                if it[0] == "f":
                    fo += 1
                    seps += 1
                    continue
                bi = (cur + fo) % NB
                b = buckets[bi]
                lo, hi = sum(1 for x in b if not x["maybe"]), len(b)
                if lo >= CAP:
                    overflow = True
                    break
                if hi >= CAP:
                    degraded = True
                    break
                item = {"cb": it[1], "p1": it[2], "p2": it[3], "p3": p3, "prio": it[4], "maybe": False}
                b.append(item)
                added.append(item)
                if cur + fo >= NB:
                    classes.add("set-spans-wrap")
                    nontrivial = True
            if degraded:
                continue
            if overflow:
                if rc != -1:
                    raise Violation("c08:overflow-not-reported", "set hit a full bucket, tdma_schedule_set returned %d" % rc)
                for x in added:
                    x["maybe"] = True
                classes.add("set-overflow")
            elif rc != seps:
                raise Violation("c08:set-return-value", "set with %d frame separators returned %d" % (seps, rc))
        elif o[0] == "A":
            cur = (cur + 1) % NB
            if cur == 0:
                wrapped = True
            executed_in_frame = False
        elif o[0] == "X":
            rc, n = int(t[1]), int(t[2])
            raw_calls = [tuple(int(v) for v in c.split(":")) for c in t[3:]]
            calls = [c[:4] for c in raw_calls]
            b = buckets[cur]
            buckets[cur] = []
            if degraded:
                continue
            if rc != n or n != len(calls):
                raise Violation("c08:execute-return-value", "executed %d callbacks, returned %d" % (n, rc))
            # follow-up items scheduled by callback 6 while the frame executes (in call order)
            in_cur = len(b)                 # the bucket's item count is only cleared when execute() is done
            spawned_here = []
            for c in raw_calls:
                if c[0] != 6:
                    continue
                off = c[2] & 3
                item = {"cb": 0, "p1": c[1], "p2": c[2], "p3": c[3], "prio": 0, "maybe": False, "spawned": True}
                if off == 0:
                    full = in_cur >= CAP
                else:
                    tb = buckets[(cur + off) % NB]
                    lo_, hi_ = sum(1 for x in tb if not x["maybe"]), len(tb)
                    if lo_ < CAP <= hi_:
                        degraded = True
                        break
                    full = lo_ >= CAP
                if full != (c[4] == -1):
                    raise Violation("c08:reentrant-schedule-return", "callback scheduling %d frames ahead into a bucket of %s items got rc=%d" % (
                        off, in_cur if off == 0 else len(buckets[(cur + off) % NB]), c[4]))
                if full:
                    continue
                if off == 0:
                    in_cur += 1
                    spawned_here.append(item)
                else:
                    buckets[(cur + off) % NB].append(item)
            if degraded:
                continue
            b = b + spawned_here
            certain = sorted((x["cb"], x["p1"], x["p2"], x["p3"]) for x in b if not x["maybe"])
            allowed = sorted((x["cb"], x["p1"], x["p2"], x["p3"]) for x in b)
            got = sorted(calls)
            rest = list(allowed)
            for g in got:
                if g in rest:
                    rest.remove(g)
                else:
                    what = "twice-or-wrong-frame" if any(g == (x["cb"], x["p1"], x["p2"], x["p3"]) for bb in buckets for x in bb) or g in allowed else "unknown-item"
                    raise Violation("c08:ran-unscheduled:%s" % what, "frame bucket %d ran %r, scheduled here: %r" % (cur, g, allowed))
            missing = list(certain)
            for g in got:
                if g in missing:
                    missing.remove(g)
            if missing:
                raise Violation("c08:item-not-run", "bucket %d: %r scheduled for this frame did not run (ran %r)" % (cur, missing, got))
            # ascending priority among the items that were in the bucket when execute() started
            prios = []
            pool = [x for x in b if not x.get("spawned")]
            ambiguous = False
            for c in calls[:len(pool)]:
                cand = [x for x in pool if (x["cb"], x["p1"], x["p2"], x["p3"]) == c]
                if not cand:
                    ambiguous = True      # a follow-up item identical to an original one ran in between
                    break
                x = min(cand, key=lambda y: y["prio"])
                pool.remove(x)
                prios.append(x["prio"])
            if not ambiguous and prios != sorted(prios):
                dup = len(set(calls)) != len(calls)
                if not dup:
                    raise Violation("c08:priority-order", "bucket %d executed priorities %r" % (cur, prios))
            if spawned_here:
                classes.add("callback-scheduled-into-current-frame")
            if len(b) >= 3 and len(set(x["prio"] for x in b)) >= 2 and wrapped:
                nontrivial = True
                classes.add("multi-prio-bucket-after-wrap")
            # (an executed frame is left empty: the model's bucket was cleared above, so anything a second
            #  execute in the same frame runs must have been scheduled in between)
            if executed_in_frame:
                classes.add("second-execute-in-frame")
            executed_in_frame = True
        elif o[0] == "R":
            for i in range(NB):
                if i != cur:
                    buckets[i] = []
                else:
                    for x in buckets[i]:
                        x["maybe"] = True
            classes.add("reset")
    if degraded:
        classes.add("degraded-after-ambiguous-capacity")
    return (sorted(classes), nontrivial and not degraded, {"start": case["start"], "ops": [list(o) if o[0] != "T" else ["T", o[1], o[2], len(o[3])] for o in ops][:40]})


SUBS = [Sub("ring_histories", strategy=case_st(), oracle=oracle, examples={"quick": 2500, "thorough": 80000},
            shards={"quick": 1, "thorough": 16}, prepare=prepare)]
