# C09 - Clock source: consecutive frame numbers, one per frame, no accumulated drift
from types import SimpleNamespace

from hypothesis import strategies as st

from harness import tk  # noqa: F401
from harness.core import Sub, Violation, HarnessError

import clck_gen

H = 2715648
RULE = ("runs of the real CLCKGen worker loop under a virtual monotonic clock (time, Event.wait and Thread are doubles; the worker "
        "runs synchronously): start frame (boundary-biased incl. 2715647), indication period 1..300 (incl. 51, 102), 0..3 "
        "links (each link object has its own identity; the list is changed in place - add / insert / remove / replace / swap - before start() and "
        "inside the handler of generated ticks, as transceivers do on power on / off: the indication of tick k goes to exactly the links attached "
        "when tick k fires; plus blocked_handler_restart: real threads, a handler blocked for 1.6 s (thorough: 0.3 / 3.2 s too) around "
        "stop()/start(), afterwards one worker and consecutive frames), 1..400 ticks, a handler-duration pattern per tick (zero, below one frame, about one frame, several frames; "
        ">=30% of runs without any overrun), 1..3 start/stop cycles. Oracle (ClockModel): frame numbers (start+k) mod "
        "2715648; 'IND CLOCK <fn>\\0' to every link exactly at fn % period == 0 and before the handler of that tick; tick "
        "times follow the absolute-deadline rule (deadline += P; fire at the deadline, or immediately with deadline := now "
        "after an overrun), so without overruns tick k is at T0+(k+1)P whatever the handlers take, and consecutive ticks are "
        "never closer than P (no catch-up burst); restart begins at the start frame again. P must be 4 615 000 ns +- 1 and "
        "identical for all ticks of a run. Non-trivial: >=1 overrun followed by >=3 regular ticks, or a hyperframe wrap, or "
        ">=2 indications.")
LEVEL = "exploration"
ASSUMPTIONS = ["sending an indication takes no (virtual) time; only handler durations advance the clock",
               "P = 4 614 999 ns (the code's float floor division) or 4 615 000 / 4 615 001 ns are all accepted as 'one frame period'"]

P_NOMINAL = 4615000


class VClock:
    def __init__(self, t0):
        self.now = t0

    def monotonic_ns(self):
        return self.now

    def monotonic(self):
        return self.now / 1e9

    def time(self):
        return self.now / 1e9

    def sleep(self, s):
        self.now += int(round(s * 1e9))


class Run:
    """one start()..stop() of the generator under the doubles"""

    def __init__(self, case, cycle):
        self.case = case
        self.durs = case["durs"]
        self.n = case["cycles"][cycle]
        self.ticks = []        # (fn, time)
        self.inds = []         # (time, link index, payload, ticks seen so far)
        self.clock = VClock(case["t0"] + cycle * 1000003)

    def install(self, gen):
        run = self

        class VEvent:
            def __init__(self):
                self.flag = False

            def set(self):
                self.flag = True

            def clear(self):
                self.flag = False

            def is_set(self):
                return self.flag

            def wait(self, timeout=None):
                if self.flag or len(run.ticks) >= run.n:
                    return True
                if timeout is None:
                    raise HarnessError("worker waits without timeout")
                if timeout < 0:
                    timeout = 0          # threading.Event.wait() returns at once for a negative timeout
                run.clock.now += int(round(timeout * 1e9))
                return False

        class SyncThread:
            def __init__(self, target=None, **kw):
                self.target = target
                self.daemon = False
                self.alive = False

            def start(self):
                self.alive = True
                try:
                    self.target()
                finally:
                    self.alive = False

            def is_alive(self):
                return self.alive

            def join(self, timeout=None):
                pass

        clck_gen.time = self.clock
        clck_gen.threading = SimpleNamespace(Thread=SyncThread, Event=VEvent)
        gen._breaker = VEvent()

        def handler(fn):
            k = len(run.ticks)
            run.ticks.append((fn, run.clock.now))
            run.clock.now += run.durs[k % len(run.durs)]
            # transceivers attach / detach their clock links in place while the generator runs (power on / off)
            for op in run.link_ops.get(k, ()):
                run.apply_link_op(op)
            run.link_snap.append([l.idx for l in run.links])
        gen.clck_handler = handler

    link_ops = {}
    links = ()
    link_snap = ()

    def apply_link_op(self, op):
        links, kind, i = self.links, op[0], op[1]
        if kind == "add":
            links.append(self.new_link())
        elif kind == "insert":
            links.insert(i % (len(links) + 1), self.new_link())
        elif kind == "remove" and links:
            del links[i % len(links)]
        elif kind == "replace" and links:
            links[i % len(links)] = self.new_link()
        elif kind == "swap" and links:              # one detached, another attached: the usual power off / power on pair
            del links[i % len(links)]
            links.append(self.new_link())


class Link:
    def __init__(self, run_ref, idx):
        self.run_ref = run_ref
        self.idx = idx              # unique per object: a detached link must not be served any more

    def send(self, payload):
        r = self.run_ref[0]
        r.inds.append((r.clock.now, self.idx, payload, len(r.ticks)))


DUR = st.one_of(st.just(0), st.integers(0, 4000000), st.integers(4600000, 4630000), st.integers(4615000, 30000000),
                st.sampled_from([4614998, 4614999, 4615000, 4615001, 2 * 4614999, 2 * 4614999 + 1, 9229997, 3 * 4614999]))
DUR_SHORT = st.one_of(st.just(0), st.integers(0, 4500000))


@st.composite
def case_st(draw):
    calm = draw(st.integers(0, 9)) < 4
    durs = draw(st.lists(DUR_SHORT if calm else st.one_of(DUR_SHORT, DUR_SHORT, DUR_SHORT, DUR), min_size=1, max_size=12))
    return {"start": draw(st.one_of(st.sampled_from([0, 1, 101, 102, H - 1, H - 2, H - 60]), st.integers(0, H - 1))),
            "period": draw(st.one_of(st.sampled_from([1, 51, 102, 102, 26, 300]), st.integers(1, 300))),
            "links": draw(st.integers(0, 3)),
            "cycles": draw(st.lists(st.one_of(st.integers(1, 40), st.integers(1, 400)), min_size=1, max_size=3)),
            "durs": durs, "t0": draw(st.sampled_from([0, 1, 123456789012, 2 ** 53 + 1, 2 ** 62])),
            # links attached / detached between stop() and the next start()
            "link_changes": draw(st.lists(st.integers(0, 3), max_size=3)),
            # in-place changes of the link list: [cycle, tick (-1 = before start()), kind, index]
            "link_ops": draw(st.lists(st.tuples(st.integers(0, 2), st.one_of(st.just(-1), st.integers(0, 40), st.integers(0, 400)),
                                                st.sampled_from(["add", "insert", "remove", "replace", "swap", "swap", "replace"]),
                                                st.integers(0, 3)).map(list), max_size=6))}


def oracle(case):
    if not all(hasattr(clck_gen, a) for a in ("time", "threading")):
        raise HarnessError("clck_gen no longer imports time/threading as modules")
    run_ref = [None]
    serial = [0]

    def new_link():
        serial[0] += 1
        return Link(run_ref, serial[0])
    links = [new_link() for i in range(case["links"])]
    gen = clck_gen.CLCKGen(links, clck_start=case["start"], ind_period=case["period"])
    overrun_then_regular = wrap = False
    n_inds = 0
    n_links = case["links"]
    for cyc in range(len(case["cycles"])):
        if cyc > 0 and cyc - 1 < len(case.get("link_changes", [])):
            n_links = case["link_changes"][cyc - 1]
            del links[:]
            links.extend(new_link() for i in range(n_links))
        r = Run(case, cyc)
        run_ref[0] = r
        r.links, r.new_link, r.link_ops = links, new_link, {}
        for (c_, k_, kind, i_) in case.get("link_ops", []):
            if c_ == cyc:
                if k_ < 0:
                    r.apply_link_op((kind, i_))
                else:
                    r.link_ops.setdefault(k_, []).append((kind, i_))
        r.link_snap = [[l.idx for l in links]]
        r.install(gen)
        t0 = r.clock.now
        gen.start()
        if gen.running:
            raise Violation("c09:still-running", "worker did not stop when asked")
        gen.stop()
        n = r.n
        if len(r.ticks) != n:
            raise Violation("c09:tick-count", "%d handler calls, %d expected" % (len(r.ticks), n))
        # frame numbers
        for k, (fn, t) in enumerate(r.ticks):
            e = (case["start"] + k) % H
            if fn != e:
                raise Violation("c09:frame-number", "tick %d of cycle %d has fn=%r, expected %d (start %d)" % (k, cyc, fn, e, case["start"]))
            if e == 0 and k > 0:
                wrap = True
        # tick times: absolute-deadline model
        P = r.ticks[0][1] - t0
        if abs(P - P_NOMINAL) > 1:
            raise Violation("c09:period", "first tick %d ns after start, one frame is %d ns" % (P, P_NOMINAL))
        deadline = t0
        now = t0
        since_overrun = None
        for k, (fn, t) in enumerate(r.ticks):
            deadline += P
            if now > deadline:
                exp = now
                deadline = now
                since_overrun = 0
                kind = "overrun-resync"
            else:
                exp = deadline
                kind = "regular"
                if since_overrun is not None:
                    since_overrun += 1
                    if since_overrun >= 3:
                        overrun_then_regular = True
            if t != exp:
                what = "drift" if kind == "regular" else "catch-up"
                raise Violation("c09:tick-time:%s" % what, "tick %d (%s) at %+d ns relative to the model (P=%d, handler pattern %r)" % (
                    k, kind, t - exp, P, case["durs"][:6]))
            if k > 0 and t - r.ticks[k - 1][1] < P:
                raise Violation("c09:tick-time:catch-up", "ticks %d and %d only %d ns apart" % (k - 1, k, t - r.ticks[k - 1][1]))
            now = t + r.durs[k % len(r.durs)]
        # indications
        exp_inds = []
        for k, (fn, t) in enumerate(r.ticks):
            if fn % case["period"] == 0:
                for li in r.link_snap[k]:
                    exp_inds.append((t, li, "IND CLOCK %d\0" % fn, k))
        got = [(t, li, p if isinstance(p, str) else p.decode("ascii", "replace"), k) for (t, li, p, k) in r.inds]
        if sorted(got) != sorted(exp_inds):
            miss = [x for x in exp_inds if x not in got][:2]
            extra = [x for x in got if x not in exp_inds][:2]
            raise Violation("c09:indications", "missing %r unexpected %r (period %d)" % (miss, extra, case["period"]))
        n_inds += len(set(k for (_, _, _, k) in exp_inds))
    cl = []
    if overrun_then_regular:
        cl.append("overrun-then-regular")
    if wrap:
        cl.append("wrap")
    if n_inds >= 2:
        cl.append(">=2 indications")
    if all(d < 4614999 for d in case["durs"]):
        cl.append("no-overrun-run")
    if len(case["cycles"]) > 1:
        cl.append("restart")
    if any(c_ < len(case["cycles"]) and k_ < case["cycles"][c_] for (c_, k_, _, _) in case.get("link_ops", [])):
        cl.append("link-list-changed-in-place")
    return (cl, overrun_then_regular or wrap or n_inds >= 2, None)


def long_runs(ctx, rec):
    """a few very long runs (tick counters beyond 2^16, several hours of virtual time): same oracle"""
    from harness.core import Failure
    fails = []
    cases = [{"start": (ctx.seed * 7919) % H, "period": 102, "links": 2, "cycles": [70000], "durs": [0], "t0": 0},
             {"start": H - 30000, "period": 51, "links": 1, "cycles": [66000], "durs": [1000, 4000000, 0, 5000000, 100], "t0": 2 ** 40}]
    if ctx.tier == "thorough":
        cases.append({"start": 0, "period": 300, "links": 3, "cycles": [300000, 5], "durs": [4614000, 0, 4616000], "t0": 123})
        cases.append({"start": 5, "period": 102, "links": 1, "cycles": [1200000], "durs": [0, 10], "t0": 2 ** 53})
    for c in cases:
        try:
            cl, nt, _ = oracle(c)
            rec.note(c, cl + ["long-run"], True)
        except Violation as v:
            fails.append(Failure("long_runs", c, v.sig, v.msg))
    return fails


def blocked_handler_restart(ctx, rec):
    """stop()/start() while the frame handler is blocked (a consumer stuck in a send for longer than any join time-out a
    maintainer might pick): real threads, the real `threading` module, real wall-clock blocking; after the restart the handler
    must see start, start+1, ... exactly once each and only one worker may be alive.  The oracle does not depend on timing."""
    import threading
    import time as real_time
    from harness.core import Failure
    fails = []
    if isinstance(rec, dict):      # replay of one stored scenario
        todo = [(rec["start"], rec["blocked_for_s"])]
        rec = None
    else:
        todo = [(H - 3, 1.6)] if ctx.tier == "quick" else [(H - 3, 1.6), (0, 3.2), (12345, 0.3)]
    for (start_fn, block_s) in todo:
        clck_gen.threading = threading
        clck_gen.time = real_time
        seen = []                  # (generation, fn, thread ident)
        state = {"gen": 0, "block_at": 3}
        entered, gate = threading.Event(), threading.Event()

        def handler(fn):
            seen.append((state["gen"], fn, threading.get_ident()))
            if state["gen"] == 0 and len(seen) == state["block_at"]:
                entered.set()
                gate.wait(30)      # released by the timer below

        gen = clck_gen.CLCKGen([], clck_start=start_fn, ind_period=51)
        gen.clck_handler = handler
        case = {"start": start_fn, "blocked_for_s": block_s}
        try:
            gen.start()
            if not entered.wait(20):
                raise HarnessError("handler never reached its blocking tick")
            threading.Timer(block_s, gate.set).start()
            gen.stop()             # the unchanged code waits here until the handler returns
            state["gen"] = 1
            n_before = len(seen)
            gen.start()
            gate.wait(30)          # (already released when stop() waited for the handler)
            real_time.sleep(0.25)
            gen.stop()
            real_time.sleep(0.1)
            after = seen[n_before:]
            fns = [fn for (g, fn, t) in after]
            want = [(start_fn + k) % H for k in range(len(fns))]
            threads = set(t for (g, fn, t) in after)
            if fns != want or len(threads) > 1:
                raise Violation("c09:restart-while-handler-blocked", "after stop()/start() with a handler blocked for %.1f s the handler saw frames %r "
                                "from %d worker thread(s); expected %r..." % (block_s, fns[:12], len(threads), want[:6]))
            if len(fns) < 5:
                raise HarnessError("restarted generator produced only %d ticks in 0.25 s" % len(fns))
            if rec is not None:
                rec.note(case, ["blocked-handler-restart"], True, {"ticks_after_restart": len(fns)})
        except Violation as v:
            if rec is None:
                raise
            fails.append(Failure("blocked_handler_restart", case, v.sig, v.msg))
        finally:
            gate.set()
            try:
                gen._breaker.set()
            except Exception:
                pass
    return fails


SUBS = [Sub("virtual_clock_runs", strategy=case_st(), oracle=oracle, examples={"quick": 1500, "thorough": 40000}),
        Sub("long_runs", fn=long_runs), Sub("blocked_handler_restart", fn=blocked_handler_restart)]
SUBS[1].replay = oracle
SUBS[2].replay = lambda case: blocked_handler_restart(None, case)
