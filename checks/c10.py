# C10 - Forwarded bursts carry faithful bits and correct simulated radio metadata
import random

from hypothesis import strategies as st

from harness import simgen
from harness import strategies as S
from harness.core import Sub, Violation
from harness.session import Session
from refs import trx_model

import rand_burst_gen
import gsm_shared

RULE = ("one sender and 1..2 recipients (any roles incl. child transceivers), all tuned to meet; histories of setting commands "
        "(sender: SETTA, SETPOWER; recipient: FAKE_TOA/FAKE_RSSI/FAKE_CI absolute with threshold >= 0 and relative, FAKE_RSSI "
        "disable, SETFORMAT 0/1) interleaved with bursts: typed bursts from the toolkit's own RandBurstGen (NB/SB/AB with a "
        "chosen training sequence, FB, dummy), bursts assembled by the harness from its own TS 45.002 training-sequence "
        "tables, arbitrary 148- and 444-bit patterns; attenuation 0..255, boundary-biased FN. Oracle: datagram at the "
        "recipient's L1 address decoded with refs/ref_trxd: fn/tn, soft bit = +-127 by hard bit, negotiated version, v0 "
        "legacy padding, RSSI/ToA256/C-I per model window, modulation by length, TSC of the sequence present; values "
        "outside protocol ranges -> nothing sent. Non-trivial: >=2 non-default settings among {TA, SETPOWER, FAKE_*, pwr} "
        "and a delivered burst with a training sequence whose TSC != 0.")
LEVEL = "exploration"
ASSUMPTIONS = ["simulator randomisation uses the global random module: re-seeded per case, only window membership asserted",
               "TSC asserted only against the sequences at their standard positions; several matches -> any accepted; none -> 0",
               "training sequences AB TS3..7 and SB TS1..3 in refs/trx_model.py are a snapshot of the pinned tables (NB 0..7, AB 0..2 cross-checked with trxcon)"]


def assembled(kind, tsc, payload):
    """burst built by the harness from the reference tables; payload: iterator of random bits"""
    nxt = lambda k: [next(payload) for _ in range(k)]
    if kind == "NB":
        return bytes([0] * 3 + nxt(57) + nxt(1) + list(trx_model.bits_of(trx_model.NB_TSC[tsc])) + nxt(1) + nxt(57) + [0] * 3)
    if kind == "SB":
        return bytes([0] * 3 + nxt(39) + list(trx_model.bits_of(trx_model.SB_TSC[tsc % 4])) + nxt(39) + [0] * 3)
    return bytes([0] * 8 + list(trx_model.bits_of(trx_model.AB_TSC[tsc])) + nxt(36) + [0] * 3 + [0] * 60)


def toolkit_burst(kind, tsc, seed):
    """burst from the toolkit's RandBurstGen with the training sequence object of the requested code"""
    random.seed(seed)
    g = rand_burst_gen.RandBurstGen()
    T = gsm_shared.TrainingSeqGMSK
    if kind == "NB":
        return bytes(g.gen_nb(getattr(T, "NB_TS%d" % tsc))), tsc
    if kind == "SB":
        return bytes(g.gen_sb(getattr(T, "SB_TS%d" % (tsc % 4)))), tsc % 4
    if kind == "AB":
        return bytes(g.gen_ab(getattr(T, "AB_TS%d" % tsc))), tsc
    if kind == "FB":
        return bytes(g.gen_fb()), None
    return bytes(g.gen_db()), None


@st.composite
def burst_st(draw):
    src = draw(st.sampled_from(["toolkit", "toolkit", "assembled", "random148", "random444", "pattern"]))
    if src in ("toolkit", "assembled"):
        kind = draw(st.sampled_from(["NB", "NB", "SB", "AB"] + (["FB", "DB"] if src == "toolkit" else [])))
        return {"src": src, "kind": kind, "tsc": draw(st.integers(0, 7)), "seed": draw(st.integers(0, 2 ** 32 - 1))}
    if src == "pattern":
        return {"src": "bits", "bits": draw(S.hard_bits(draw(st.sampled_from((148, 444)))))}
    n = 148 if src == "random148" else 444
    return {"src": "bits", "bits": draw(st.binary(min_size=n, max_size=n).map(lambda b: bytes(x & 1 for x in b)))}


def make_bits(b):
    if b["src"] == "bits":
        return bytes(b["bits"]), None
    if b["src"] == "toolkit":
        return toolkit_burst(b["kind"], b["tsc"], b["seed"])
    rnd = random.Random(b["seed"])
    it = iter(lambda: rnd.randint(0, 1), 2)
    tsc = b["tsc"] % 4 if b["kind"] == "SB" else b["tsc"]
    return assembled(b["kind"], tsc, it), tsc


@st.composite
def case_st(draw):
    cfg = draw(simgen.app_config(max_extra=2))
    n = simgen.n_trx(cfg)
    sender = draw(st.integers(0, n - 1))
    freq = [935000, 890000]
    steps = []
    nsteps = draw(st.integers(1, 14))
    for _ in range(nsteps):
        k = draw(st.sampled_from(["burst", "burst", "burst", "set_s", "set_r", "set_r"]))
        if k == "burst":
            steps.append({"op": "burst", "b": draw(burst_st()), "fn": draw(S.fn()), "tn": draw(st.integers(0, 7)),
                          "pwr": draw(st.one_of(st.integers(0, 30), st.integers(0, 60), S.biased(0, 255)))})
        elif k == "set_s":
            verb = draw(st.sampled_from(["SETTA", "SETPOWER"]))
            val = draw(st.one_of(st.integers(0, 63), st.integers(0, 20))) if verb == "SETTA" else draw(st.one_of(st.integers(0, 30), st.integers(-10, 80)))
            steps.append({"op": "cmd", "t": "s", "verb": verb, "args": [str(val)]})
        else:
            verb = draw(st.sampled_from(["FAKE_TOA", "FAKE_TOA", "FAKE_RSSI", "FAKE_RSSI", "FAKE_RSSI", "FAKE_CI", "FAKE_CI", "SETFORMAT", "FAKE_DROP", "RFMUTE"]))
            r = draw(st.sampled_from([0, 0, 0, 1, 2, 3]))
            if verb == "SETFORMAT":
                args = [str(draw(st.sampled_from([0, 1])))]
            elif verb in ("FAKE_DROP", "RFMUTE"):
                # one recipient simulates loss (or is muted): the OTHER recipients of the same bursts must still get faithful
                # bits and their own metadata (seeded change C10-A5: one transformed message object shared by all recipients)
                args = [str(draw(st.integers(1, 3)))] if verb == "FAKE_DROP" else [str(draw(st.sampled_from([1, 1, 0])))]
                steps.append({"op": "cmd", "t": r, "verb": verb, "args": args})
                for _ in range(draw(st.integers(1, 2))):
                    steps.append({"op": "burst", "b": draw(burst_st()), "fn": draw(S.fn()), "tn": draw(st.integers(0, 7)), "pwr": draw(st.integers(0, 20))})
                continue
            elif draw(st.integers(0, 3)) == 0:
                args = [str(draw(st.one_of(st.integers(-6, 6), st.integers(-50, 50))))]        # relative form
            else:
                base = {"FAKE_TOA": S.biased(-3000, 3000, (-256, 256, 512)), "FAKE_RSSI": st.one_of(st.integers(-110, -60), S.biased(-125, -40, (-110, -60))),
                        "FAKE_CI": S.biased(-1300, 1300, (90, -30))}[verb]
                thr = draw(st.one_of(st.just(0), st.integers(0, 20), st.integers(0, 300)))
                if verb == "FAKE_RSSI" and draw(st.integers(0, 3)) == 0:
                    thr = -1            # documented: negative threshold disables the fake RSSI
                args = [str(draw(base)), str(thr)]
            steps.append({"op": "cmd", "t": r, "verb": verb, "args": args})
            if verb.startswith("FAKE_") and len(args) == 2 and draw(st.integers(0, 2)) == 0:
                # ... followed by the relative form (or, for RSSI, the disabling form) and a burst that shows the effect
                if verb == "FAKE_RSSI" and draw(st.booleans()):
                    steps.append({"op": "cmd", "t": r, "verb": verb, "args": [args[0], "-1"]})
                else:
                    steps.append({"op": "cmd", "t": r, "verb": verb, "args": [str(draw(st.integers(-6, 6)))]})
                steps.append({"op": "burst", "b": draw(burst_st()), "fn": draw(S.fn()), "tn": draw(st.integers(0, 7)), "pwr": draw(st.integers(0, 20))})
    return {"cfg": cfg, "sender": sender, "vers": draw(st.lists(st.sampled_from([0, 1]), min_size=n, max_size=n)),
            "rseed": draw(st.integers(0, 2 ** 31)), "steps": steps}


def oracle(case, adversarial=False):
    import fake_trx
    from harness.core import HarnessError
    if not hasattr(fake_trx, "random"):
        raise HarnessError("fake_trx no longer imports random as a module: the randomness double cannot be installed")
    real_random = fake_trx.random
    if adversarial:
        from harness.advrandom import AdvRandom
        fake_trx.random = AdvRandom(case["rseed"])
    try:
        return _oracle(case)
    finally:
        fake_trx.random = real_random


def adversarial_oracle(case):
    return oracle(case, adversarial=True)


def _oracle(case):
    s = Session(case["cfg"], {"metadata", "routing"}, "c10")
    try:
        n = s.n
        snd = case["sender"] % n
        # everybody else receives what the sender transmits
        for i in range(n):
            s.cmd(i, "RXTUNE", ["890000" if i == snd else "935000"])
            s.cmd(i, "TXTUNE", ["935000" if i == snd else "890000"])
            s.cmd(i, "SETFORMAT", [str(case["vers"][i])])
        for i in range(n):
            s.cmd(i, "POWERON", [])
        random.seed(case["rseed"])
        nondefault = set()
        tsc_nonzero = False
        delivered_before = 0
        classes = set()
        for st_ in case["steps"]:
            if st_["op"] == "cmd":
                i = snd if st_["t"] == "s" else [k for k in range(n) if k != snd][st_["t"] % (n - 1)]
                s.cmd(i, st_["verb"], st_["args"])
                nondefault.add(st_["verb"])
                continue
            bits, tsc = make_bits(st_["b"])
            # the toolkit's generator must put the requested sequence where the standard says (cross-check with own tables)
            if st_["b"]["src"] == "toolkit" and tsc is not None:
                if tsc not in trx_model.tsc_candidates(bits):
                    raise Violation("c10:metadata:generator-training-sequence",
                                    "RandBurstGen %s burst with TSC %d does not carry that training sequence at the standard position" % (st_["b"]["kind"], tsc))
            if st_["pwr"]:
                nondefault.add("pwr")
            s.arrive(snd, {"ver": s.model.trx[snd].ver, "fn": st_["fn"], "tn": st_["tn"], "pwr": st_["pwr"], "bits": bits})
            random.seed(case["rseed"] ^ st_["fn"])
            s.tick(st_["fn"])
            if s.stats["delivered"] > delivered_before:
                delivered_before = s.stats["delivered"]
                classes.add("delivered:%s" % (st_["b"].get("kind") or "bits%d" % len(bits)))
                if tsc:
                    tsc_nonzero = True
        nt = len(nondefault) >= 2 and tsc_nonzero
        classes.update("set:" + v for v in nondefault)
        if s.stats["either"]:
            classes.add("window-straddles-range")
        if s.stats["invalid_silent"]:
            classes.add("out-of-range->nothing")
        sample = {"cfg": case["cfg"], "sender": snd, "vers": case["vers"],
                  "steps": [(x if x["op"] == "cmd" else {k: v for k, v in x.items() if k != "b"} | {"burst": {k: v for k, v in x["b"].items() if k != "bits"}}) for x in case["steps"]],
                  "stats": s.stats}
        return (sorted(classes), nt, sample)
    finally:
        s.close()


SUBS = [Sub("metadata", strategy=case_st(), oracle=oracle, examples={"quick": 1000, "thorough": 30000}),
        # same generator and oracle, but the simulator's randomness comes from the adversarial double (window edges, far tails)
        Sub("metadata_adversarial_rng", strategy=case_st(), oracle=adversarial_oracle, examples={"quick": 500, "thorough": 15000})]
