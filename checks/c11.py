# C11 - Firmware and trxcon agree on the multiframe mapping of every logical channel
import os
import subprocess

from harness import cbuild
from harness.core import Sub, Failure, HarnessError, Violation, REPO, VERIF, Ctx
from harness.core import Recorder as core_Recorder

RULE = ("finite domain enumerated completely: (a) firmware - unmodified mframe_sched.c with a recording tdma_schedule_set: for every "
        "multiframe task 0..28 and every FN of a full 51x26x8 cycle (10608 frames) the task alone is enabled and mframe_schedule() "
        "run; block start frame = FN + frame_offset + 1 (DSP command latency); (b) trxcon - unmodified sched_mframe.c under ASan: "
        "every (channel combination 0..max, TN 0..7) lookup, frames[fn % period] read for every FN of the cycle, one table "
        "period dumped. Oracle: a fixed correspondence table (task, item set, SACCH flag) <-> (layout(s), TN parity, direction, "
        "logical channel) following TS 45.002 clause 7 naming; for block channels the set of block start frames mod the "
        "layout period must equal the frames the layout marks with burst id 0; for TCH traffic and its SACCH the frames the "
        "layout gives to the channel; inside every layout burst ids advance cyclically by +1 mod 4 (mod 2 for TCH/H), every "
        "channel used is in lchan_mask, the returned layout is valid for the TN and the requested combination, period > 0; "
        "(c) continuous operation: seven realistic task sets (up to all 29 tasks) enabled once and walked frame by frame for a cycle "
        "+ 3000 frames across the hyperframe wrap without any reset - the triggers must be the union of the per-task triggers; "
        "(d) trxcon lookup histories: descending order, repeated lookups and a generated sequence (VERIF_SEED; runs on one combination / one "
        "timeslot) - every lookup must return what the same lookup returned in the first pass; the firmware side is built and enumerated "
        "twice: with the host's signed char and with -funsigned-char (the ARM ABI of the real target). "
        "Each compared row / table row is a distinct evaluation; non-trivial = all rows (distinct points of the finite domain).")
LEVEL = "exploration"
ASSUMPTIONS = ["the correspondence table (which task is which logical channel) is fixed by the harness from the 3GPP names",
               "DSP command latency of one frame: a set scheduled with frame_offset k puts its first burst at FN + k + 1",
               "tasks without a trxcon counterpart (BCCH-ext, neighbour PM, PTCCH stub, test TX) are executed but not compared",
               "trxcon built against the libosmocore shim (newer gsm_phys_chan_config enumerators come from c/shim)"]

CYCLE = 51 * 26 * 8
TASKS = ["BCCH_NORM", "BCCH_EXT", "CCCH", "CCCH_COMB", "SDCCH4_0", "SDCCH4_1", "SDCCH4_2", "SDCCH4_3",
         "SDCCH8_0", "SDCCH8_1", "SDCCH8_2", "SDCCH8_3", "SDCCH8_4", "SDCCH8_5", "SDCCH8_6", "SDCCH8_7",
         "SDCCH4_CBCH", "SDCCH8_CBCH", "TCH_F_EVEN", "TCH_F_ODD", "TCH_H_0", "TCH_H_1", "GPRS_PDTCH", "GPRS_PTCCH",
         "NEIGH_PM51_C0T0", "NEIGH_PM51", "NEIGH_PM26E", "NEIGH_PM26O", "UL_ALL_NB"]
COMB = ["CCCH_SDCCH4", "CCCH_SDCCH4_CBCH"]
S8 = ["SDCCH8_SACCH8C", "SDCCH8_SACCH8C_CBCH"]


def rows():
    """(task, firmware set, SACCH flag, layouts, tn filter, direction, lchan, kind)"""
    r = []
    r.append(("BCCH_NORM", "NB_DL", 0, ["CCCH"] + COMB, None, "dl", "BCCH", "block"))
    r.append(("CCCH", "NB_DL", 0, ["CCCH"], None, "dl", "CCCH", "block"))
    r.append(("CCCH_COMB", "NB_DL", 0, COMB, None, "dl", "CCCH", "block"))
    for n in range(4):
        lays = COMB if n != 2 else ["CCCH_SDCCH4"]          # sub-slot 2 is the CBCH in the CBCH combination
        r.append(("SDCCH4_%d" % n, "NB_DL", 0, lays, None, "dl", "SDCCH4_%d" % n, "block"))
        r.append(("SDCCH4_%d" % n, "NB_UL", 0, lays, None, "ul", "SDCCH4_%d" % n, "block"))
        r.append(("SDCCH4_%d" % n, "NB_DL", 1, lays, None, "dl", "SACCH4_%d" % n, "block"))
        r.append(("SDCCH4_%d" % n, "NB_UL", 1, lays, None, "ul", "SACCH4_%d" % n, "block"))
    for n in range(8):
        lays = S8 if n != 2 else ["SDCCH8_SACCH8C"]
        r.append(("SDCCH8_%d" % n, "NB_DL", 0, lays, None, "dl", "SDCCH8_%d" % n, "block"))
        r.append(("SDCCH8_%d" % n, "NB_UL", 0, lays, None, "ul", "SDCCH8_%d" % n, "block"))
        r.append(("SDCCH8_%d" % n, "NB_DL", 1, lays, None, "dl", "SACCH8_%d" % n, "block"))
        r.append(("SDCCH8_%d" % n, "NB_UL", 1, lays, None, "ul", "SACCH8_%d" % n, "block"))
    r.append(("SDCCH4_CBCH", "NB_DL", 0, ["CCCH_SDCCH4_CBCH"], None, "dl", "SDCCH4_CBCH", "block"))
    r.append(("SDCCH8_CBCH", "NB_DL", 0, ["SDCCH8_SACCH8C_CBCH"], None, "dl", "SDCCH8_CBCH", "block"))
    for par, task in (("even", "TCH_F_EVEN"), ("odd", "TCH_F_ODD")):
        for d in ("dl", "ul"):
            r.append((task, "TCH", 0, ["TCH_F"], par, d, "TCHF", "frame"))
            r.append((task, "TCH_A", 1, ["TCH_F"], par, d, "SACCHTF", "frame"))
    for n in range(2):
        for d in ("dl", "ul"):
            r.append(("TCH_H_%d" % n, "TCH", 0, ["TCH_H"], None, d, "TCHH_%d" % n, "frame"))
            r.append(("TCH_H_%d" % n, "TCH_A", 1, ["TCH_H"], None, d, "SACCHTH_%d" % n, "frame"))
    r.append(("GPRS_PDTCH", "NB_DL", 0, ["PDCH"], None, "dl", "PDTCH", "block"))
    return r


SUPPORTED = ["NONE", "CCCH", "CCCH_SDCCH4", "CCCH_SDCCH4_CBCH", "SDCCH8_SACCH8C", "SDCCH8_SACCH8C_CBCH", "TCH_F", "TCH_H", "PDCH"]
SINGLE = {"IDLE", "FCCH", "SCH", "RACH"}


def build(ctx, uchar=False):
    b = ctx.build
    # the firmware's real target is ARM, where plain 'char' is unsigned: the firmware side is built and enumerated twice, with the
    # host's signed char and with -funsigned-char
    uc = ["-funsigned-char"] if uchar else []
    sfx = "_uc" if uchar else ""
    fw = [cbuild.compile_obj(os.path.join(REPO, "src/target/firmware/layer1/mframe_sched.c"), os.path.join(b, "mframe_sched%s.o" % sfx),
                             cbuild.FW_INC + ["-fno-sanitize=shift-base"] + uc),   # '1 << 31' on int is the firmware's idiom for task bit 31
          cbuild.compile_obj(os.path.join(REPO, "src/shared/libosmocore/src/gsm/gsm_utils.c"), os.path.join(b, "gsm_utils%s.o" % sfx),
                             cbuild.FW_INC + ["-I", os.path.join(cbuild.CSHIM, "fw/cfgdir/a/b")] + uc),
          cbuild.compile_obj(os.path.join(VERIF, "c", "drv_mframe_fw.c"), os.path.join(b, "drv_fw%s.o" % sfx), cbuild.FW_INC + uc)]
    stubs = os.path.join(b, "stubs.c")
    cbuild.weak_stubs(fw, stubs)
    fw.append(cbuild.compile_obj(stubs, os.path.join(b, "stubs.o"), [], sanitize=False))
    exe_fw = cbuild.link(fw, os.path.join(b, "drv_mframe_fw" + sfx))
    inc = ["-I", os.path.join(cbuild.CSHIM, "osmo"), "-I", os.path.join(REPO, "src/host/trxcon/include"),
           "-I", os.path.join(REPO, "src/shared/libosmocore/include"), "-include", "stdarg.h", "-include", "stdbool.h", "-D_GNU_SOURCE"]
    tc = [cbuild.compile_obj(os.path.join(REPO, "src/host/trxcon/src/sched_mframe.c"), os.path.join(b, "sched_mframe.o"), inc),
          cbuild.compile_obj(os.path.join(VERIF, "c", "drv_mframe_trxcon.c"), os.path.join(b, "drv_tc.o"), inc)]
    exe_tc = cbuild.link(tc, os.path.join(b, "drv_mframe_trxcon"))
    return exe_fw, exe_tc


def run(exe, args=()):
    env = dict(os.environ)
    env.update(cbuild.SAN_ENV)
    return cbuild.run_bounded([exe] + [str(a) for a in args], env=env)


def check(ctx, rec):
    fails = check_variant(ctx, rec, False)
    have = set(f.sig for f in fails)
    for f in check_variant(ctx, rec, True):
        if f.sig not in have:
            f.sig += ":unsigned-char-build"
            f.msg = "(firmware built with -funsigned-char, the ARM ABI) " + (f.msg or "")
            if isinstance(f.case, dict):
                f.case = dict(f.case, unsigned_char=True)
            fails.append(f)
    return fails


def check_variant(ctx, rec, uchar):
    exe_fw, exe_tc = build(ctx, uchar)
    fails, sigs = [], set()

    def fail(sig, msg, case):
        if sig not in sigs:
            sigs.add(sig)
            fails.append(Failure("tables", case, sig, msg))

    rf, rt = run(exe_fw), run(exe_tc, [ctx.seed, 300000 if ctx.tier == "quick" else 20000000])
    if rf.returncode != 0:
        fail("c11:firmware-driver-crash", rf.stderr[-600:], {"driver": "fw"})
        return fails
    if rt.returncode != 0:
        m = cbuild.DriverCrash(rt.returncode, rt.stderr, [])
        fail("c11:trxcon:" + m.signature(), rt.stderr[-600:], {"driver": "trxcon"})
        return fails
    # ---- firmware triggers
    trig = {}
    n_trig = 0
    walk = {}             # combination index -> set of (fn, task, set, p3, offset)
    combos = {}
    for l in rf.stdout.splitlines():
        t = l.split()
        if t and t[0] == "W":
            combos[int(t[1])] = (int(t[2], 16), int(t[3]))
            continue
        if t and t[0] == "T" and int(t[1]) < 0:
            walk.setdefault(-1 - int(t[1]), set()).add((int(t[2]), int(t[4]) & 0xff, t[3], int(t[4]), int(t[5])))
            continue
        if t and t[0] == "T":
            task, fn, sset, p3, off = int(t[1]), int(t[2]), t[3], int(t[4]), int(t[5])
            if (p3 & 0xff) != task:
                fail("c11:fw:p3-task", "task %d scheduled with p3=%#x" % (task, p3), {"line": l})
            trig.setdefault((TASKS[task], sset, (p3 >> 8) & 1), []).append((fn + off + 1) % CYCLE)
            n_trig += 1
    if "DONE" not in rf.stdout:
        raise HarnessError("firmware driver did not finish")
    # continuous operation with several tasks enabled at once must trigger exactly what each task triggers alone
    single = {}
    for l in rf.stdout.splitlines():
        t = l.split()
        if t and t[0] == "T" and int(t[1]) >= 0:
            single.setdefault(int(t[1]), set()).add((int(t[2]), t[3], int(t[4]), int(t[5])))
    n_walk = 0
    for ci, (mask, start) in sorted(combos.items()):
        got = walk.get(ci, set())
        n_walk += len(got)
        exp = set()
        by_fn = {}
        for task in range(29):
            if mask & (1 << task):
                for (f0, sset, p3, off) in single.get(task, ()):
                    by_fn.setdefault(f0, []).append((task, sset, p3, off))
        for k in range(CYCLE + 3000):
            fn = (start + k) % 2715648
            for (task, sset, p3, off) in by_fn.get(fn % CYCLE, ()):
                exp.add((fn, task, sset, p3, off))
        # the first frames after enabling are subject to the 'safe frame' rule: compare from 10 frames after the start
        skip = set((start + k) % 2715648 for k in range(10))
        got_c = set(x for x in got if x[0] not in skip)
        exp_c = set(x for x in exp if x[0] not in skip)
        if got_c != exp_c:
            d = sorted(got_c ^ exp_c)[:4]
            fail("c11:fw:continuous-operation-differs", "tasks 0x%08x enabled together, walked from frame %d: differs from the per-task triggers at %r" % (mask, start, d),
                 {"combination": ci, "mask": mask})
    # ---- trxcon tables
    E, P = {}, {}
    n_hist = 0
    lay = {}
    table = {}
    for l in rt.stdout.splitlines():
        t = l.split()
        if not t:
            continue
        if t[0] == "E":
            E[int(t[2])] = t[1]
        elif t[0] == "P":
            P[t[1]] = int(t[2])
        elif t[0] == "L":
            lay[(int(t[1]), int(t[2]))] = None if t[3] == "NULL" else {"chan_config": int(t[3]), "period": int(t[4]),
                                                                      "slotmask": int(t[5], 16), "mask": int(t[6], 16), "frames": t[7] == "frames"}
        elif t[0] == "O":
            fail("c11:trxcon:lookup-depends-on-history", "lookup(combination %s, TN%s) right after lookup(%s, TN%s) returned another layout than the same "
                 "lookup made first" % (t[1], t[2], t[4], t[5]), {"line": l})
        elif t[0] == "H":
            n_hist = int(t[1])
        elif t[0] == "F":
            table.setdefault((int(t[1]), int(t[2])), []).append((int(t[4]), int(t[5]), int(t[6]), int(t[7])))
    Ename = {v: k for k, v in E.items()}
    Pname = {v: k for k, v in P.items()}
    n_rows = 0
    # layout-internal rules
    for (cfg, tn), L in sorted(lay.items()):
        name = Pname.get(cfg, str(cfg))
        if L is None:
            if name in SUPPORTED:
                fail("c11:layout-missing", "no layout for %s on TN %d" % (name, tn), {"cfg": name, "tn": tn})
            continue
        if L["chan_config"] != cfg:
            fail("c11:layout-wrong-combination", "lookup(%s, TN%d) returned a layout for %s" % (name, tn, Pname.get(L["chan_config"])), {"cfg": name, "tn": tn})
        if not (L["slotmask"] >> tn) & 1:
            fail("c11:layout-not-valid-for-timeslot", "lookup(%s, TN%d) returned slotmask %#x" % (name, tn, L["slotmask"]), {"cfg": name, "tn": tn})
        if name == "NONE":
            continue
        if L["period"] <= 0 or not L["frames"]:
            fail("c11:layout-empty", "%s TN%d period %d" % (name, tn, L["period"]), {"cfg": name, "tn": tn})
            continue
        fr = table.get((cfg, tn), [])
        if len(fr) != L["period"]:
            raise HarnessError("table dump incomplete")
        n_rows += len(fr)
        for di, d in ((0, "dl"), (2, "ul")):
            chans = {}
            for f, row in enumerate(fr):
                ch = E.get(row[di], "chan%d" % row[di])
                if ch != "IDLE" and not (L["mask"] >> row[di]) & 1:
                    fail("c11:channel-not-in-lchan-mask", "%s TN%d frame %d uses %s (%s) which is not in lchan_mask" % (name, tn, f, ch, d),
                         {"cfg": name, "tn": tn, "frame": f})
                chans.setdefault(ch, []).append((f, row[di + 1]))
            for ch, occ in chans.items():
                if ch in SINGLE:
                    if any(b != 0 for _, b in occ) and ch != "IDLE":
                        fail("c11:burst-id:single-burst-channel", "%s TN%d: %s carries burst ids %r" % (name, tn, ch, sorted(set(b for _, b in occ))), {"cfg": name, "tn": tn, "chan": ch})
                    continue
                m = 2 if ch.startswith("TCHH") else 4
                for k in range(len(occ)):
                    (f0, b0), (f1, b1) = occ[k], occ[(k + 1) % len(occ)]
                    if b1 != (b0 + 1) % m:
                        fail("c11:burst-id:sequence", "%s TN%d %s %s: frame %d has burst id %d, next frame %d has %d" % (name, tn, d, ch, f0, b0, f1, b1),
                             {"cfg": name, "tn": tn, "chan": ch, "frame": f0})
                        break
    # correspondence firmware <-> trxcon
    n_cmp = 0
    samples = []
    for (task, sset, sacch, lays, par, d, ch, kind) in rows():
        fw_frames = trig.get((task, sset, sacch), [])
        if not fw_frames:
            fail("c11:fw:task-never-triggers", "task %s never schedules %s (sacch=%d)" % (task, sset, sacch), {"task": task, "set": sset})
            continue
        for lname in lays:
            cfg = P.get(lname)
            for tn in range(8):
                if par == "even" and tn % 2:
                    continue
                if par == "odd" and not tn % 2:
                    continue
                L = lay.get((cfg, tn))
                if not L or not L["frames"] or L["period"] <= 0:
                    continue
                per = L["period"]
                fr = table[(cfg, tn)]
                di = 0 if d == "dl" else 2
                want = ch
                lay_frames = sorted(f for f, row in enumerate(fr) if E.get(row[di]) == want and (kind == "frame" or row[di + 1] == 0))
                fwf = sorted(set(x % per for x in fw_frames))
                n_cmp += 1
                if len(samples) < 3:
                    samples.append({"task": task, "set": sset, "layout": lname, "tn": tn, "dir": d, "chan": ch, "frames": fwf[:8]})
                if fwf != lay_frames:
                    fail("c11:mapping-differs:%s" % ("block-start" if kind == "block" else "frames"),
                         "%s (%s%s) vs %s TN%d %s %s: firmware frames mod %d = %s, trxcon = %s" % (
                             task, sset, "/SACCH" if sacch else "", lname, tn, d, ch, per,
                             [x for x in fwf if x not in lay_frames][:6] or fwf[:6], [x for x in lay_frames if x not in fwf][:6] or lay_frames[:6]),
                         {"task": task, "set": sset, "layout": lname, "tn": tn, "dir": d, "chan": ch})
    rec.bulk(n_trig + n_rows + n_cmp + len(lay) + n_walk + n_hist, n_rows + n_cmp, {"trxcon-lookup-history-steps": n_hist, "fw-continuous-walk-triggers": n_walk, "fw-triggers": n_trig, "trxcon-table-rows": n_rows,
                                                                 "correspondence-comparisons": n_cmp, "layout-lookups": len(lay)}, samples)
    rec.exhaustive = True
    return fails


def replay(case):
    """the domain is finite and enumerated completely: replaying = running the enumeration again (both firmware builds)"""
    fails = check(Ctx("C11", "quick", 1), core_Recorder("tables"))
    for f in fails:
        if not isinstance(case, dict) or not case or all(f.case.get(k) == v for k, v in case.items() if isinstance(f.case, dict)):
            raise Violation(f.sig, f.msg)
    if fails:
        raise Violation(fails[0].sig, fails[0].msg)


SUBS = [Sub("tables", fn=check)]
SUBS[0].replay = replay
