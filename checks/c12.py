# C12 - Power state, child transceivers and clock distribution stay consistent
from hypothesis import strategies as st

from harness import simgen
from harness import strategies as S
from harness.core import Sub
from harness.session import Session

RULE = ("application configurations with 0..4 extra transceivers (children hung under BTS / MS / an extra parent, distinct base "
        "ports/addresses) and histories of 1..40 operations: POWERON, POWEROFF, RXTUNE, TXTUNE, SETFH to any transceiver, "
        "clock ticks delivered through the shared generator at indication frames, and bursts queued at any transceiver. Oracle "
        "(TrxModel): running(t) = last effective power command (own, or the parent's when it manages children: BTS and extra "
        "parents do, MS does not); POWERON status; POWEROFF forgets hopping and queued bursts (a queued burst is never put on "
        "the air afterwards); IND CLOCK goes from bind:base to remote:base+100 of exactly the running clock owners; generator "
        "alive <=> that set is non-empty; at start-up exactly the documented sockets are bound and replies/bursts use the "
        "documented peer ports. Non-trivial: >=1 child, a POWEROFF after a successful POWERON, and a tick while a strict, "
        "non-empty subset of the clock owners is running.")
LEVEL = "exploration"
ASSUMPTIONS = ["clock thread parked (threading double): 'generator runs' is observed through CLCKGen.running; ticks are delivered "
               "by calling send_clck_ind() at an indication frame"]


@st.composite
def case_st(draw):
    cfg = draw(simgen.app_config(max_extra=4, min_extra=draw(st.sampled_from([0, 1, 1, 2]))))
    n = simgen.n_trx(cfg)
    steps = []
    if draw(st.integers(0, 4)) > 0:
        # most histories start from tuned transceivers, so that POWERON can succeed
        for t in range(n):
            if draw(st.integers(0, 5)) > 0:
                steps.append({"op": "cmd", "t": t, "verb": "RXTUNE", "args": [str(draw(st.sampled_from(simgen.FREQ_POOL)))]})
                steps.append({"op": "cmd", "t": t, "verb": "TXTUNE", "args": [str(draw(st.sampled_from(simgen.FREQ_POOL)))]})
    for _ in range(draw(st.integers(1, 50))):
        k = draw(st.sampled_from(["POWERON"] * 4 + ["POWEROFF"] * 3 + ["RXTUNE", "TXTUNE", "RXTUNE", "TXTUNE", "SETFH", "tick", "tick", "tick", "tick", "tick", "burst", "burst"]))
        t = draw(st.integers(0, n - 1))
        if k in ("POWERON", "POWEROFF"):
            steps.append({"op": "cmd", "t": t, "verb": k, "args": []})
        elif k in ("RXTUNE", "TXTUNE"):
            steps.append({"op": "cmd", "t": t, "verb": k, "args": [str(draw(st.sampled_from(simgen.FREQ_POOL)))]})
        elif k == "SETFH":
            steps.append({"op": "cmd", "t": t, "verb": k, "args": draw(simgen.setfh_args())})
        elif k == "tick":
            steps.append({"op": "tick", "k": draw(st.one_of(st.integers(0, 50), st.sampled_from([26623, 26624])))})
        else:
            steps.append({"op": "burst", "t": t, "k": draw(st.integers(0, 50)), "tn": draw(st.integers(0, 7))})
    return {"cfg": cfg, "steps": steps}


def oracle(case):
    s = Session(case["cfg"], {"reply", "power", "clock", "queue", "ports", "routing"}, "c12")
    try:
        s.check_power()
        has_child = any(t.idx > 0 for t in s.model.trx)
        off_after_on = strict_subset_tick = False
        was_on = set()
        bits = bytes(148)
        owners = [t for t in s.model.trx if t.has_clck]
        for st_ in case["steps"]:
            if st_["op"] == "cmd":
                i = st_["t"]
                if st_["verb"] == "POWEROFF" and (i in was_on):
                    off_after_on = True
                s.cmd(i, st_["verb"], st_["args"])
                if st_["verb"] == "POWERON" and s.model.trx[i].running:
                    was_on.add(i)
            elif st_["op"] == "tick":
                if 0 < len(s.model.clock_links) < len(owners):
                    strict_subset_tick = True
                s.clock_ind(st_["k"])
            else:
                i = st_["t"]
                fn = (st_["k"] * 102) % 2715648
                s.arrive(i, {"ver": s.model.trx[i].ver, "fn": fn, "tn": st_["tn"], "pwr": 0, "bits": bits})
        # flush: every still-queued burst must come out at its own frame, discarded ones never
        pending = sorted(set(b["fn"] for t in s.model.trx for b in t.queue))
        for fn in pending:
            s.tick(fn)
        for k in (0, 7, 26623):
            s.clock_ind(k)
        cl = ["trx=%d" % s.n]
        if has_child:
            cl.append("has-child")
        if off_after_on:
            cl.append("poweroff-after-poweron")
        if strict_subset_tick:
            cl.append("tick-with-strict-subset-running")
        if s.stats["emitted"]:
            cl.append("burst-on-air")
        sample = {"cfg": case["cfg"], "steps": [(x.get("t"), x.get("verb") or x["op"], " ".join(x.get("args", []))[:40] if x["op"] == "cmd" else x.get("k")) for x in case["steps"]], "stats": s.stats}
        return (cl, has_child and off_after_on and strict_subset_tick, sample)
    finally:
        s.close()


SUBS = [Sub("power_histories", strategy=case_st(), oracle=oracle, examples={"quick": 800, "thorough": 30000})]
