# C13 - Validation accepts exactly the protocol value ranges; nothing invalid is sent
import itertools
from array import array

from hypothesis import strategies as st

from harness import tk
from harness.core import Sub, Violation, Failure, repo_frame_sig, HarnessError
from harness.fakenet import FakeNet
from refs.ref_trxd import MODS, HYPERFRAME
from refs.ref_valid import valid

RULE = ("baseline = one valid message per (class, version, modulation/NOPE, burst length); every single field and "
        "every PAIR of fields set to each candidate value {None, lo-1, lo, lo+1, mid, hi-1, hi, hi+1, far out} "
        "(burst: None and lengths around every accepted length) is enumerated completely; Hypothesis adds random full "
        "combinations. Oracle: validate() raises ValueError <=> gen_msg() raises ValueError <=> not ref_valid; nothing "
        "else raised; DATAInterface.send_msg emits exactly one datagram iff valid; for every point also objects with a past: filled by "
        "parse_msg() from a datagram carrying the values (whatever the octets can hold) and re-encoded / re-sent untouched, and a valid object "
        "encoded once and then changed in place to the point - refused / not sent iff invalid. Non-trivial: a deviated field sits "
        "on or next to a range boundary; distinct by construction (enumeration) / by case hash (Hypothesis).")
LEVEL = "exploration"
ASSUMPTIONS = ["only int/None field values are protocol values (other Python types are not generated)",
               "burst contents are irrelevant to validity: a fixed pattern per length is used"]

H = HYPERFRAME
CAND = {
    "ver": [-1, 0, 1, 2, 15, 16],   # never None: Msg.__init__ defaults to 0 and no caller unsets it
    "fn": [None, -10 ** 9, -1, 0, 1, H // 2, H - 2, H - 1, H, H + 1, 2 ** 32 - 1, 2 ** 32],
    "tn": [None, -1, 0, 1, 4, 6, 7, 8, 255],
    "pwr": [None, -1, 0, 1, 128, 254, 255, 256, 1000],
    "rssi": [None, -200, -121, -120, -119, -80, -48, -47, -46, 0, 47],
    "toa256": [None, -10 ** 6, -32769, -32768, -32767, 0, 32766, 32767, 32768, 10 ** 6],
    "ci": [None, -40000, -1281, -1280, -1279, 0, 1279, 1280, 1281, 40000],
    "tsc": [None, -1, 0, 1, 6, 7, 8, 100],
    "tsc_set": [None, -1, 0, 1, 2, 3, 4, 9],
    "mod": [None] + sorted(MODS),
    "nope": [False, True],
    "burst_len": [None, 0, 1, 147, 148, 149, 150, 295, 296, 297, 443, 444, 445, 446, 591, 592, 593, 739, 740, 741],
}
FAR = {"fn": (-10 ** 9, 2 ** 32, 2 ** 32 - 1, H // 2), "tn": (255, 4), "pwr": (1000, 128), "rssi": (-200, 47, 0, -80),
       "toa256": (-10 ** 6, 10 ** 6, 0), "ci": (-40000, 40000, 0), "tsc": (100,), "tsc_set": (9,),
       "burst_len": (0, 1), "ver": (15, 16)}
TX_FIELDS = ["ver", "fn", "tn", "pwr", "burst_len"]
RX_FIELDS = ["ver", "fn", "tn", "rssi", "toa256", "mod", "tsc_set", "tsc", "ci", "nope", "burst_len"]


def baselines():
    out = []
    for ver in (0, 1):
        for bl in (148, 444):
            out.append({"cls": "tx", "ver": ver, "fn": 1000, "tn": 3, "pwr": 20, "burst_len": bl})
    for bl in (148, 444):
        out.append({"cls": "rx", "ver": 0, "fn": 1000, "tn": 3, "rssi": -70, "toa256": 5, "mod": "GMSK", "tsc_set": 0,
                    "tsc": 0, "ci": 0, "nope": False, "burst_len": bl})
    for mod in sorted(MODS):
        out.append({"cls": "rx", "ver": 1, "fn": 1000, "tn": 3, "rssi": -70, "toa256": 5, "mod": mod, "tsc_set": 1,
                    "tsc": 5, "ci": 100, "nope": False, "burst_len": MODS[mod][1]})
    out.append({"cls": "rx", "ver": 1, "fn": 1000, "tn": 3, "rssi": -110, "toa256": 0, "mod": "GMSK", "tsc_set": 0,
                "tsc": 0, "ci": -30, "nope": True, "burst_len": None})
    return out


_bursts = {}


def burst_for(cls, n):
    if n is None:
        return None
    k = (cls, n)
    if k not in _bursts:
        _bursts[k] = bytearray(i & 1 for i in range(n)) if cls == "tx" else array("b", [((i * 5) % 255) - 127 for i in range(n)])
    return _bursts[k]


def build(m):
    d = dict(m)
    msg = tk.new_msg(m["cls"])
    msg.ver, msg.fn, msg.tn = m["ver"], m["fn"], m["tn"]
    if m["cls"] == "tx":
        msg.pwr = m["pwr"]
    else:
        msg.rssi, msg.toa256 = m["rssi"], m["toa256"]
        msg.mod_type = tk.modulation(m["mod"])
        msg.tsc_set, msg.tsc, msg.ci, msg.nope_ind = m["tsc_set"], m["tsc"], m["ci"], m["nope"]
    msg.burst = burst_for(m["cls"], m["burst_len"])
    return msg


class Net:
    """one DATAInterface on FakeNet, reused"""
    _inst = None

    @classmethod
    def get(cls):
        if cls._inst is None:
            import udp_link
            import data_if
            net = FakeNet()
            udp_link.socket = net.module()
            cls._inst = (net, data_if.DATAInterface("127.0.0.1", 5802, "0.0.0.0", 5702))
        return cls._inst


def oracle(m):
    ok, why = valid(m)
    # 1. validate()
    msg = build(m)
    try:
        msg.validate()
        v_ok = True
    except ValueError:
        v_ok = False
    field = why or "none"
    if v_ok and not ok:
        raise Violation("c13:invalid-accepted:%s" % field,
                        "validate() accepts a message whose %s is out of range: %r" % (field, m))
    if ok and not v_ok:
        raise Violation("c13:valid-rejected:%s" % m["cls"], "validate() rejects valid %r" % (m,))
    # 2. gen_msg() (both legacy settings)
    for legacy in (False, True):
        msg = build(m)
        try:
            enc = msg.gen_msg(legacy)
            g_ok = True
        except ValueError:
            g_ok = False
        if g_ok != ok:
            raise Violation("c13:gen_msg-disagrees:%s:%s" % (m["cls"], field),
                            "gen_msg(legacy=%s) %s but message is %s: %r" % (legacy, "encoded" if g_ok else "refused",
                                                                             "valid" if ok else "invalid", m))
    # 3. send_msg(): exactly one datagram iff valid, never an exception
    net, dif = Net.get()
    net.take()
    dif.send_msg(build(m), legacy=bool(m.get("tn") == 1))
    sent = net.take()
    if len(sent) != (1 if ok else 0):
        raise Violation("c13:send-count:%s:%s" % (m["cls"], field),
                        "%d datagram(s) sent for %s message %r" % (len(sent), "valid" if ok else "invalid", m))
    if ok and (sent[0][1] != ("127.0.0.1", 5802) or sent[0][0] != ("0.0.0.0", 5702)):
        raise Violation("c13:send-address", "datagram went %r -> %r" % (sent[0][0], sent[0][1]))
    reuse_oracle(m, ok)
    return ok


def _encodable(m):
    """can the layout carry these values at all (so that a peer could have sent them)?"""
    def rng(v, lo, hi):
        return isinstance(v, int) and lo <= v <= hi
    if m["ver"] not in (0, 1) or not rng(m["fn"], 0, 2 ** 32 - 1) or not rng(m["tn"], 0, 7):
        return False
    if m["cls"] == "tx":
        return rng(m["pwr"], 0, 255) and m["burst_len"] is not None
    if not rng(m["rssi"], -255, 0) or not rng(m["toa256"], -32768, 32767):
        return False
    if m["ver"] == 0:
        return m["burst_len"] is not None
    if not rng(m["ci"], -32768, 32767):
        return False
    if m["nope"]:
        return m["burst_len"] is None
    return (m["mod"] in MODS and rng(m["tsc_set"], 0, 3 if m["mod"] == "GMSK" else 1) and rng(m["tsc"], 0, 7)
            and m["burst_len"] is not None)


def _as_valid_dict(f):
    d = dict(f)
    b = f.get("bits") if f["cls"] == "tx" else f.get("soft")
    d["burst_len"] = None if b is None else len(b)
    return d


def reuse_oracle(m, ok):
    """the 'nothing invalid is sent' half on a message object with a past: (a) an object filled by parse_msg() from a datagram
    carrying these values (a peer can put any value the octets can hold on the wire) and then encoded / sent again without
    being touched; (b) a valid object that was encoded once, then got one field changed in place to the deviating value."""
    from refs import ref_trxd
    net, dif = Net.get()
    if _encodable(m):
        d = dict(m)
        if m["cls"] == "tx":
            d["bits"] = bytes(i & 1 for i in range(m["burst_len"]))
        else:
            d["soft"] = None if m["burst_len"] is None else [((i * 5) % 255) - 127 for i in range(m["burst_len"])]
            d["nope"] = bool(m.get("nope"))
        data = ref_trxd.encode(d, False)
        msg = tk.new_msg(m["cls"])
        try:
            msg.parse_msg(bytearray(data) if m["cls"] == "rx" else data)
            parsed = True
        except ValueError:
            parsed = False
        if parsed:
            p_ok, p_why = valid(_as_valid_dict(tk.msg_fields(msg)))
            try:
                msg.gen_msg(False)
                g_ok = True
            except ValueError:
                g_ok = False
            if g_ok and not p_ok:
                raise Violation("c13:parsed-invalid-re-encoded:%s:%s" % (m["cls"], p_why),
                                "an object filled by parse_msg() with an out-of-range %s was encoded again by gen_msg(): %r" % (p_why, m))
            if p_ok and not g_ok:
                raise Violation("c13:parsed-valid-refused:%s" % m["cls"], "parse_msg() then gen_msg() refuses valid %r" % (m,))
            net.take()
            dif.send_msg(msg)
            sent = net.take()
            if len(sent) != (1 if p_ok else 0):
                raise Violation("c13:parsed-send-count:%s:%s" % (m["cls"], p_why or "none"),
                                "%d datagram(s) sent for a parsed %s message %r" % (len(sent), "valid" if p_ok else "invalid", m))
    # (b) a valid object, encoded once, then changed in place into m
    base = next((b for b in baselines() if b["cls"] == m["cls"] and b["ver"] == m["ver"] and b.get("mod") == m.get("mod")
                 and b.get("nope") == m.get("nope") and b["burst_len"] == m["burst_len"]), None)
    if base is None or m["ver"] not in (0, 1):
        return
    msg = build(base)
    try:
        msg.gen_msg(False)
    except ValueError:
        return                          # (reported by the plain oracle on the baseline itself)
    for f in (TX_FIELDS if m["cls"] == "tx" else RX_FIELDS):
        if f in ("mod", "nope", "burst_len", "ver") or base.get(f) == m.get(f):
            continue
        setattr(msg, f, m[f])
    try:
        msg.gen_msg(False)
        g_ok = True
    except ValueError:
        g_ok = False
    if g_ok != ok:
        raise Violation("c13:changed-in-place:%s" % m["cls"], "object encoded once as a valid message, then changed in place to %r: gen_msg() %s" % (
            m, "encoded it" if g_ok else "refused it"))
    net.take()
    dif.send_msg(msg)
    sent = net.take()
    if len(sent) != (1 if ok else 0):
        raise Violation("c13:changed-in-place-send-count:%s" % m["cls"], "%d datagram(s) sent after an in-place change to %s %r" % (
            len(sent), "valid" if ok else "invalid", m))


def near_boundary(field, val):
    return val is not None and val not in FAR.get(field, ()) and field not in ("mod", "nope")


def enumerate_lattice(ctx, rec):
    fails, sigs = [], set()
    bases = baselines()
    if ctx.tier == "quick":
        # all singles on all baselines; pairs on a rotating half of the baselines (seed-dependent), always incl. one tx, rx v0, rx v1, NOPE
        keep = {0, 4, 12}
        for i in range(len(bases)):
            if (i + ctx.seed) % 2 == 0:
                keep.add(i)
        pair_bases = [b for i, b in enumerate(bases) if i in keep]
    else:
        pair_bases = bases
    n = nt = 0
    n_valid = 0
    classes = {}

    def one(m, nontriv, cls):
        nonlocal n, nt, n_valid
        try:
            ok = oracle(m)
            n += 1
            nt += 1 if nontriv else 0
            n_valid += 1 if ok else 0
            classes[cls] = classes.get(cls, 0) + 1
        except Violation as v:
            if v.sig not in sigs:
                sigs.add(v.sig)
                fails.append(Failure("lattice", m, v.sig, v.msg))
        except Exception as e:
            sig = repo_frame_sig(e)
            if sig is None:
                raise
            sig = "c13:unexpected-exception:" + sig
            if sig not in sigs:
                sigs.add(sig)
                fails.append(Failure("lattice", m, sig, "%r for %r" % (e, m)))

    for b in bases:
        fields = TX_FIELDS if b["cls"] == "tx" else RX_FIELDS
        one(dict(b), True, "baseline")
        for f in fields:
            for v in CAND[f]:
                m = dict(b)
                m[f] = v
                one(m, near_boundary(f, v), "single:" + f)
    for b in pair_bases:
        fields = TX_FIELDS if b["cls"] == "tx" else RX_FIELDS
        for f1, f2 in itertools.combinations(fields, 2):
            for v1 in CAND[f1]:
                for v2 in CAND[f2]:
                    m = dict(b)
                    m[f1] = v1
                    m[f2] = v2
                    one(m, near_boundary(f1, v1) or near_boundary(f2, v2), "pair")
    rec.bulk(n, nt, classes, samples=[dict(bases[5], fn=H), dict(bases[0], pwr=256, tn=8)])
    rec.classes["valid"] = n_valid
    rec.classes["invalid"] = n - n_valid
    rec.exhaustive = True
    rec.notes.append("singles on %d baselines, pairs on %d baselines" % (len(bases), len(pair_bases)))
    return fails


REDUCED = {
    "ver": [0, 1, 2], "fn": [-1, 0, H - 1, H], "tn": [-1, 0, 7, 8], "pwr": [-1, 0, 255, 256],
    "rssi": [-121, -120, -47, -46], "toa256": [-32769, -32768, 32767, 32768], "ci": [-1281, -1280, 1280, 1281],
    "tsc": [None, -1, 0, 7, 8], "tsc_set": [None, -1, 0, 1, 2, 3, 4], "mod": [None] + sorted(MODS), "nope": [False, True],
    "burst_len": [None, 148, 296, 444, 592, 740, 149],
}


def enumerate_triples(ctx, rec):
    """every TRIPLE of fields at the bounds themselves (reduced candidate set) on every baseline: three-way interactions
    such as version x modulation x TSC set, or NOPE x burst x C/I"""
    fails, sigs = [], set()
    n = n_valid = 0
    for b in baselines():
        fields = TX_FIELDS if b["cls"] == "tx" else RX_FIELDS
        for f1, f2, f3 in itertools.combinations(fields, 3):
            for v1 in REDUCED[f1]:
                for v2 in REDUCED[f2]:
                    for v3 in REDUCED[f3]:
                        m = dict(b)
                        m[f1], m[f2], m[f3] = v1, v2, v3
                        try:
                            n_valid += 1 if oracle(m) else 0
                            n += 1
                        except Violation as v:
                            if v.sig not in sigs:
                                sigs.add(v.sig)
                                fails.append(Failure("lattice_triples", m, v.sig, v.msg))
                        except Exception as e:
                            sig = repo_frame_sig(e)
                            if sig is None:
                                raise
                            sig = "c13:unexpected-exception:" + sig
                            if sig not in sigs:
                                sigs.add(sig)
                                fails.append(Failure("lattice_triples", m, sig, "%r for %r" % (e, m)))
    rec.bulk(n, n, {"triples": n, "triples-valid": n_valid}, [dict(baselines()[8], mod="GMSK_AB", tsc_set=2, ver=1)])
    rec.exhaustive = True
    return fails


def field_st(f):
    c = CAND[f]
    if f in ("mod", "nope"):
        return st.sampled_from(c)
    ints = [v for v in c if v is not None]
    return st.one_of(st.sampled_from(c), st.integers(min(ints), max(ints)))


@st.composite
def rand_msg(draw):
    cls = draw(st.sampled_from(("tx", "rx", "rx")))
    fields = TX_FIELDS if cls == "tx" else RX_FIELDS
    base = draw(st.sampled_from([b for b in baselines() if b["cls"] == cls]))
    m = dict(base)
    k = draw(st.integers(0, len(fields)))
    for f in draw(st.permutations(fields))[:k]:
        m[f] = draw(field_st(f))
    return m


def hyp_oracle(m):
    try:
        ok = oracle(m)
    except Violation:
        raise
    except Exception as e:
        sig = repo_frame_sig(e)
        if sig is None:
            raise
        raise Violation("c13:unexpected-exception:" + sig, "%r for %r" % (e, m))
    return (["valid" if ok else "invalid", m["cls"]], True)


SUBS = [
    Sub("lattice", fn=enumerate_lattice),
    Sub("lattice_triples", fn=enumerate_triples),
    Sub("random_combinations", strategy=rand_msg(), oracle=hyp_oracle, examples={"quick": 3000, "thorough": 100000}),
]
SUBS[0].replay = hyp_oracle
SUBS[1].replay = hyp_oracle
