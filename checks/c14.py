# C14 - No datagram or capture content can crash the tools
import io
import random

from hypothesis import strategies as st

from harness import strategies as S
from harness import tk, trxif, cbuild
from harness.core import Sub, Violation, Ctx, repo_frame_sig, HarnessError
from harness.fakenet import FakeNet
from harness.session import Session
from refs import ref_trxd

import data_dump
import data_if
import udp_link

RULE = ("(raw) arbitrary byte strings and mutations of valid messages / commands / capture files (truncation, extension, bit "
        "flips, overwritten header octets, wrong version nibble) into TxMsg/RxMsg.parse_msg (only ValueError may escape), "
        "DATAInterface.recv_tx_msg/recv_rx_msg, CTRLInterface.handle_rx and DATADumpFile.parse_msg/parse_all (nothing may "
        "escape); (sessions) a running 2-transceiver FakeTRX with valid traffic into which hostile DATA and CTRL datagrams "
        "(malformed, non-numeric, non-UTF-8, missing NUL, huge/negative arguments of otherwise valid commands, over-long) are "
        "injected at any point, each followed by a burst and a clock tick (the clock thread is where a poisoned setting "
        "detonates), then a recovery script of valid commands that must be answered per TrxModel and traffic that must be "
        "forwarded per the C02/C10 oracles; (trxcon) action sequences {enqueue command, deliver datagram to the CTRL / DATA "
        "callback} against the unmodified trx_if.c under ASan/UBSan with arbitrary and mutated responses/bursts (every "
        "truncation, missing status/arguments, no NUL, 1023/1024-octet fills, lengths around 8/156/158/452/454/512). "
        "Non-trivial: input that gets past the first validation branch (accepted verb / parsed header / record with a valid tag).")
LEVEL = "exploration"
ASSUMPTIONS = ["'answered with an error status or ignored': at most one reply, to the sender; both accepted",
               "partial application of a half-valid command is not flagged; after hostile control input settings are unknown until the recovery script has run",
               "trxcon: reads of stale-but-in-bounds buffer content are not detectable (no MSan)"]


def esc(kind, e):
    sig = repo_frame_sig(e)
    if sig is None:
        raise e
    return Violation("c14:%s:exception-escapes:%s" % (kind, sig), "%r" % (e,))


# ------------------------------------------------------------------ raw inputs
@st.composite
def mutated_bytes(draw, base):
    data = bytearray(draw(base))
    for _ in range(draw(st.integers(0, 3))):
        op = draw(st.sampled_from(("trunc", "extend", "flip", "set", "splice")))
        if op == "trunc" and data:
            data = data[:draw(st.integers(0, len(data)))]
        elif op == "extend":
            data += draw(st.binary(min_size=1, max_size=16))
        elif op == "flip" and data:
            i = draw(st.integers(0, len(data) - 1))
            data[i] ^= 1 << draw(st.integers(0, 7))
        elif op == "set" and data:
            i = draw(st.integers(0, min(len(data), 12) - 1))
            data[i] = draw(st.integers(0, 255))
        elif op == "splice" and data:
            i = draw(st.integers(0, len(data)))
            data[i:i] = draw(st.binary(min_size=1, max_size=4))
    return bytes(data)


valid_tx = S.tx_msg().map(lambda m: ref_trxd.encode(m, False))
valid_rx = S.rx_msg().map(lambda m: ref_trxd.encode(m, m["ver"] == 0))
datagram_st = st.one_of(st.binary(max_size=600), mutated_bytes(valid_tx), mutated_bytes(valid_rx))

_net = {}


def dif():
    if "d" not in _net:
        net = FakeNet()
        udp_link.socket = net.module()
        _net["net"] = net
        _net["d"] = data_if.DATAInterface("127.0.0.1", 5802, "0.0.0.0", 5702)
    return _net["net"], _net["d"]


def raw_data_oracle(case):
    data = case["data"]
    cls = []
    for kind in ("tx", "rx"):
        for buf in (bytes(data), bytearray(data)):
            msg = tk.new_msg(kind)
            try:
                msg.parse_msg(buf)
                cls.append("parsed:" + kind)
            except ValueError:
                pass
            except Exception as e:
                raise Violation("c14:parse_msg:raises-other-than-ValueError:%s:%s" % (kind, type(e).__name__), "%r for %s" % (e, data[:16].hex()))
    net, d = dif()
    for fn_name in ("recv_tx_msg", "recv_rx_msg"):
        for v in (0, 1):
            d._hdr_ver = v
            net.inject(d.sock, data, ("127.0.0.1", 5802))
            try:
                r = getattr(d, fn_name)()
            except Exception as e:
                raise esc("data_if." + fn_name, e)
            if r is not None and r is not False and r.ver != v:
                raise Violation("c14:data_if:wrong-version-delivered", "%s returned a v%d message on a v%d link" % (fn_name, r.ver, v))
    if net.take():
        raise Violation("c14:data_if:receive-emits", "receiving a datagram caused a transmission")
    return (sorted(set(cls)) or ["rejected"], bool(cls))


# --- capture files
@st.composite
def capture_bytes(draw):
    kind = draw(st.sampled_from(("random", "records", "records", "records")))
    if kind == "random":
        return draw(st.binary(max_size=400))
    blob = bytearray()
    for _ in range(draw(st.integers(1, 5))):
        m = draw(st.one_of(S.tx_msg(lens=(148,)), S.rx_msg()))
        enc = ref_trxd.encode(m, False)
        tag = 1 if m["cls"] == "tx" else 2
        if draw(st.integers(0, 5)) == 0:
            tag = draw(st.integers(0, 255))
        ln = len(enc)
        if draw(st.integers(0, 5)) == 0:
            ln = draw(st.one_of(st.integers(0, 65535), st.integers(max(0, ln - 3), ln + 3)))
        blob += bytes([tag, (ln >> 8) & 255, ln & 255]) + enc
    return draw(mutated_bytes(st.just(bytes(blob))))


def capture_oracle(case):
    blob = case["data"]
    cl = set()
    for call in ("all", "all_skip", "idx"):
        f = data_dump.DATADumpFile(io.BytesIO(blob))
        try:
            try:
                if call == "all":
                    r = f.parse_all()
                elif call == "all_skip":
                    r = f.parse_all(skip=case["skip"], count=case["count"])
                else:
                    r = f.parse_msg(case["idx"])
            except Exception as e:
                raise esc("capture." + call, e)
            if call != "idx":
                if not (r is False or isinstance(r, list)):
                    raise Violation("c14:capture:result-type", "parse_all returned %r" % (r,))
                if r:
                    cl.add("records-read")
            elif r is not None and r is not False:
                cl.add("records-read")
        finally:
            f.f.close()
    return (sorted(cl) or ["nothing-read"], bool(cl))


# ------------------------------------------------------------------- sessions
CFG = {"trx_defs": [], "bts_port": 5700, "bb_port": 6700, "bts_addr": "127.0.0.1", "bb_addr": "127.0.0.1", "bind_addr": "0.0.0.0"}
TUNE = [("890000", "935000"), ("935000", "890000")]

HUGE = ["99999999999999999999", "-99999999999999999999", "4294967296", "-2147483649", "65536", "-1", "64", "255", "1e3", "0x10",
        "abc", "", " ", "1.5", "+", "-", "١٢", "1_000", "\x00", "NaN"]
VERBS = ["POWERON", "POWEROFF", "RXTUNE", "TXTUNE", "MEASURE", "SETFH", "SETFORMAT", "SETPOWER", "NOMTXPOWER", "RFMUTE", "SETTA",
         "FAKE_TOA", "FAKE_RSSI", "FAKE_CI", "FAKE_DROP", "FAKE_TRXC_DELAY", "SETSLOT", "ECHO", ""]


@st.composite
def hostile_ctrl(draw):
    k = draw(st.sampled_from(["badarg"] * 6 + ["garbage", "nonutf8", "nonul", "spaces", "long", "prefix", "poison", "poison", "poison"]))
    if k == "badarg":
        verb = draw(st.sampled_from(VERBS))
        n = draw(st.integers(0, 5))
        args = [draw(st.one_of(st.sampled_from(HUGE), st.integers(-300, 300).map(str))) for _ in range(n)]
        return ("CMD " + " ".join([verb] + args)).encode("utf-8", "replace") + b"\0"
    if k == "poison":
        # syntactically valid commands with values outside what the simulator can work with
        return draw(st.sampled_from([
            "CMD FAKE_TOA 0 -5", "CMD FAKE_CI 0 -1", "CMD FAKE_CI 90 -100", "CMD FAKE_TOA 10 -1", "CMD SETFH 64 0 935000 890000",
            "CMD SETFH 200 0 935000 890000 935200 890200", "CMD SETFH -1 0 935000 890000", "CMD SETFH 5 0 935000",
            "CMD SETFH 5 0", "CMD SETTA 99999999", "CMD SETPOWER -99999", "CMD FAKE_RSSI 500 3", "CMD FAKE_TOA 99999999 1",
            "CMD FAKE_DROP 5 0", "CMD FAKE_DROP -5", "CMD SETFORMAT 99", "CMD SETFORMAT -1", "CMD FAKE_TRXC_DELAY -100",
            "CMD RXTUNE -1", "CMD MEASURE 99999999999", "CMD SETFH 1 99 935000 890000 935200 890200",
            "CMD FAKE_CI 99999 0", "CMD FAKE_RSSI -60 99999", "CMD FAKE_TOA 0 99999",
        ])).encode() + b"\0"
    if k == "garbage":
        return draw(st.binary(max_size=64))
    if k == "nonutf8":
        return b"CMD " + draw(st.sampled_from([b"RXTUNE \xff\xfe", b"\xc3\x28 1", b"SETTA \x80", b"\xff", b"FAKE_TOA 1 \xe2\x82"])) + b"\0"
    if k == "nonul":
        return ("CMD " + draw(st.sampled_from(["POWEROFF", "RXTUNE 935000", "SETTA 5", "SETFORMAT 1"]))).encode()
    if k == "spaces":
        return draw(st.sampled_from([b"CMD  RXTUNE 5\0", b"CMD RXTUNE  5\0", b"CMD RXTUNE 5 \0", b"CMD\tRXTUNE\t5\0", b"CMD \0", b"CMD\0", b"CMD",
                                     b"CMD RXTUNE\0 5", b"CMDRXTUNE 5\0", b"CMD \0\0\0", b"CMD RXTUNE 5\0garbage", b"CMD SETFH 1 0  935000 890000\0"]))
    if k == "long":
        return b"CMD SETFH 0 0 " + b" ".join(b"935000 890000" for _ in range(draw(st.sampled_from([9, 10, 70, 80, 200])))) + b"\0"
    return draw(st.sampled_from([b"RSP POWERON 0\0", b"cmd POWERON\0", b"IND CLOCK 1\0", b"\0CMD POWERON\0"]))


@st.composite
def hostile_data(draw):
    return draw(st.one_of(st.binary(max_size=40), mutated_bytes(valid_tx), mutated_bytes(valid_tx),
                          st.sampled_from([b"", b"\x00", b"\x00" * 5, b"\x00" * 6, b"\x10" + b"\x00" * 5, b"\x20" + b"\x00" * 160, b"\xf7" * 200])))


@st.composite
def session_case(draw):
    steps = []
    for _ in range(draw(st.integers(1, 12))):
        k = draw(st.sampled_from(["burst", "burst", "bad_ctrl", "bad_ctrl", "bad_data", "bad_data", "setting"]))
        t = draw(st.integers(0, 1))
        if k == "burst":
            steps.append({"op": "burst", "t": t, "fn": draw(S.fn()), "tn": draw(st.integers(0, 7)), "pwr": draw(st.integers(0, 40))})
        elif k == "bad_ctrl":
            steps.append({"op": "bad_ctrl", "t": t, "data": draw(hostile_ctrl()), "probe_fn": draw(S.fn())})
        elif k == "bad_data":
            steps.append({"op": "bad_data", "t": t, "data": draw(hostile_data())})
        else:
            verb, args = draw(st.sampled_from([("SETTA", ["3"]), ("FAKE_TOA", ["20", "5"]), ("FAKE_RSSI", ["-70", "4"]), ("FAKE_CI", ["50", "10"]),
                                               ("SETFORMAT", ["1"]), ("SETFORMAT", ["0"]), ("SETPOWER", ["5"]), ("RFMUTE", ["1"]), ("RFMUTE", ["0"]),
                                               ("FAKE_DROP", ["1"]), ("SETFH", ["7", "0", "890000", "935000", "890200", "935200"])]))
            steps.append({"op": "cmd", "t": t, "verb": verb, "args": args})
    return {"steps": steps, "rseed": draw(st.integers(0, 2 ** 31))}


def recover(s, i):
    """valid commands that put transceiver i back into a known state; each must be answered per the model"""
    m = s.model.trx[i]
    m.dirty = True
    m.delay_ms = 0
    s.cmd(i, "FAKE_TRXC_DELAY", ["0"])      # first: whatever delay hostile input configured is gone with this command
    s.cmd(i, "POWEROFF", [])
    m.running = False
    m.queue = []
    m.fh = None
    if m in s.model.clock_links:
        s.model.clock_links.remove(m)
        s.model.clock_running = len(s.model.clock_links) > 0
    # the model adopts the documented effect of each recovery command
    m.dirty = False
    for verb, args in (("FAKE_TRXC_DELAY", ["0"]), ("RXTUNE", [TUNE[i][0]]), ("TXTUNE", [TUNE[i][1]]), ("SETTA", ["0"]), ("SETPOWER", ["0"]),
                       ("RFMUTE", ["0"]), ("FAKE_TOA", ["0", "0"]), ("FAKE_CI", ["90", "0"]), ("FAKE_RSSI", ["-60", "-1"]),
                       ("FAKE_DROP", ["0"]), ("SETFORMAT", [str(m.ver if m.ver in (0, 1) else 0)]), ("POWERON", [])):
        s.cmd(i, verb, args)
    if not s.app.trx[i].running:
        raise Violation("c14:session:not-running-after-recovery", "transceiver %d does not run after POWEROFF/tune/POWERON" % i)


def _typed_bursts():
    """valid traffic is not one fixed bit pattern: normal, sync and access bursts with every training sequence
    (assembled from the reference tables), plus all-zero (frequency correction) and an alternating pattern"""
    import random as _r
    from refs import trx_model as tm
    rnd = _r.Random(7)
    bit = lambda k: [rnd.randint(0, 1) for _ in range(k)]
    out = [bytes((i * 7) & 1 for i in range(148)), bytes(148)]
    for t in range(8):
        out.append(bytes([0] * 3 + bit(58) + list(tm.bits_of(tm.NB_TSC[t])) + bit(58) + [0] * 3))
        out.append(bytes([0] * 8 + list(tm.bits_of(tm.AB_TSC[t])) + bit(36) + [0] * 63))
    for t in range(4):
        out.append(bytes([0] * 3 + bit(39) + list(tm.bits_of(tm.SB_TSC[t])) + bit(39) + [0] * 3))
    assert all(len(b) == 148 for b in out)
    return out


TYPED = _typed_bursts()


def session_oracle(case):
    s = Session(CFG, {"reply", "routing", "metadata"}, "c14")
    bits = TYPED[case["rseed"] % len(TYPED)]
    cl = set()
    try:
        for i in (0, 1):
            recover(s, i)
        random.seed(case["rseed"])
        for st_ in case["steps"]:
            i = st_["t"]
            app_t = s.app.trx[i]
            if st_["op"] == "burst":
                bits = TYPED[(case["rseed"] + st_["fn"] + st_["tn"]) % len(TYPED)]
                s.arrive(i, {"ver": s.model.trx[i].ver, "fn": st_["fn"], "tn": st_["tn"], "pwr": st_["pwr"], "bits": bits})
                try:
                    s.tick(st_["fn"])
                except Violation:
                    raise
                except Exception as e:
                    raise esc("clock-thread", e)
            elif st_["op"] == "cmd":
                s.cmd(i, st_["verb"], st_["args"])
            elif st_["op"] == "bad_data":
                data = st_["data"]
                before_q = len(app_t._tx_queue)
                s.app.net.take()
                s.app.net.inject(app_t.data_if.sock, data, s.app.l1_addr(app_t, "data"))
                try:
                    r = app_t.recv_data_msg()
                except Exception as e:
                    raise esc("recv_data_msg", e)
                if s.app.net.take():
                    raise Violation("c14:session:bad-data-emits", "a datagram was sent in reaction to %s" % data[:12].hex())
                # would a conforming parser take it?  (>= 6 octets, known version, version of the link)
                acceptable = len(data) >= 6 and (data[0] >> 4) == s.model.trx[i].ver and s.model.trx[i].running
                if r and not acceptable:
                    raise Violation("c14:session:malformed-data-accepted", "%s queued on a v%d link" % (data[:12].hex(), s.model.trx[i].ver))
                if r:
                    cl.add("odd-but-parseable-data-queued")
                    d = ref_trxd.decode("tx", data)
                    s.model.trx[i].queue.append({"fn": d["fn"], "tn": d["tn"], "pwr": d["pwr"], "bits": b"", "odd": True, "id": -1, "ver": d["ver"]})
                    try:
                        s.tick(d["fn"] % ref_trxd.HYPERFRAME)
                    except Violation:
                        raise
                    except Exception as e:
                        raise esc("clock-thread", e)
                    # the odd burst may have been forwarded (and may have consumed the peer's drop budget):
                    # both transceivers go back to the known state
                    recover(s, 0)
                    recover(s, 1)
                else:
                    if len(app_t._tx_queue) != before_q:
                        raise Violation("c14:session:rejected-data-queued", "queue length changed by a rejected datagram")
                    cl.add("bad-data-dropped")
            else:
                data = st_["data"]
                src = ("127.0.0.1", 40000 + i)
                s.app.net.take()
                s.app.net.inject(app_t.ctrl_if.sock, data, src)
                try:
                    app_t.ctrl_if.handle_rx()
                except Exception as e:
                    raise esc("ctrl.handle_rx", e)
                out = s.app.net.take()
                s.app.sleeper.slept = []
                if len(out) > 1:
                    raise Violation("c14:session:several-replies", "%d datagrams in response to %r" % (len(out), data[:40]))
                if out:
                    if out[0][1] != src:
                        raise Violation("c14:session:reply-destination", "reply to %r went to %r" % (data[:30], out[0][1]))
                    if not data.startswith(b"CMD"):
                        raise Violation("c14:session:non-command-answered", "%r answered with %r" % (data[:30], out[0][2][:40]))
                    cl.add("bad-ctrl-answered")
                else:
                    cl.add("bad-ctrl-ignored")
                # settings of this transceiver are unknown now: traffic must still not crash the clock thread
                s.model.trx[i].dirty = True
                s.model.trx[1 - i].dirty = True
                for snd in (i, 1 - i):
                    a = s.app.trx[snd]
                    ver = a.data_if._hdr_ver if a.data_if._hdr_ver in (0, 1) else 0
                    pkt = ref_trxd.encode({"cls": "tx", "ver": ver, "fn": st_["probe_fn"], "tn": 1, "pwr": 0, "bits": bits})
                    s.app.net.inject(a.data_if.sock, pkt, s.app.l1_addr(a, "data"))
                    try:
                        a.recv_data_msg()
                    except Exception as e:
                        raise esc("recv_data_msg", e)
                for k in range(3):
                    try:
                        s.app.app.clck_handler((st_["probe_fn"] + k) % ref_trxd.HYPERFRAME)
                    except Exception as e:
                        raise esc("clock-thread", e)
                s.app.net.take()
                s.air = []
                s.app.logs.take()
                recover(s, 0)
                recover(s, 1)
        # final: strictly checked traffic in both directions (from the known state)
        recover(s, 0)
        recover(s, 1)
        s.stats["delivered"] = 0
        for ver_ in (0, 1):
            # final traffic on both header versions, a different burst type each time
            for snd in (0, 1):
                s.cmd(snd, "SETFORMAT", [str(ver_)])
            for snd in (0, 1):
                b_ = TYPED[(case["rseed"] + 5 * ver_ + snd) % len(TYPED)]
                s.arrive(snd, {"ver": ver_, "fn": 777 + snd + 10 * ver_, "tn": 2, "pwr": 3, "bits": b_})
                s.tick(777 + snd + 10 * ver_)
        if s.stats["delivered"] < 4:
            raise HarnessError("final traffic was not delivered in the model: recovery script incomplete")
        return (sorted(cl) or ["valid-only"], bool(cl & {"bad-ctrl-answered", "odd-but-parseable-data-queued"}),
                {"steps": [{k: (v if not isinstance(v, bytes) else repr(v[:60])) for k, v in x.items()} for x in case["steps"]]})
    finally:
        s.close()


# --- boundary lattice of numeric command arguments (enumerated completely, like C13's lattice)
LATTICE = [-(2 ** 31) - 1, -32769, -129, -1, 0, 1, 2, 7, 63, 64, 255, 256, 32767, 65536, 2 ** 31, 10 ** 20]
ONE_ARG = ["RXTUNE", "TXTUNE", "MEASURE", "SETFORMAT", "SETPOWER", "RFMUTE", "SETTA", "FAKE_TOA", "FAKE_RSSI", "FAKE_CI", "FAKE_DROP", "FAKE_TRXC_DELAY"]
TWO_ARG = ["FAKE_TOA", "FAKE_RSSI", "FAKE_CI", "FAKE_DROP"]


def ctrl_boundary_lattice(ctx, rec):
    """every numeric TRXC command with every argument (pair) on the boundary lattice, sent to a running transceiver that
    then has to carry traffic (clock path), run the recovery script and carry strictly checked traffic again"""
    from harness.core import Failure
    cmds = []
    for v in ONE_ARG:
        cmds += ["%s %d" % (v, a) for a in LATTICE]
    for v in TWO_ARG:
        cmds += ["%s %d %d" % (v, a, b) for a in LATTICE for b in LATTICE]
    cmds += ["SETFH %d %d 935000 890000 935200 890200" % (a, b) for a in LATTICE for b in LATTICE]
    cmds += ["SETFH 5 0 %d %d" % (a, b) for a in LATTICE for b in LATTICE if (a, b) != (0, 0)]
    fails, sigs = [], set()
    n = 0
    for k, c in enumerate(cmds):
        case = {"rseed": k, "steps": [{"op": "bad_ctrl", "t": k % 2, "data": ("CMD " + c).encode() + b"\0", "probe_fn": [100, 0, 2715647, 2000001][k % 4]}]}
        try:
            session_oracle(case)
            n += 1
        except Violation as v:
            if v.sig not in sigs:
                sigs.add(v.sig)
                fails.append(Failure("ctrl_boundary_lattice", case, v.sig, "%s -> %s" % (c, v.msg)))
        except HarnessError:
            raise
        except Exception as e:
            sig = repo_frame_sig(e)
            if sig is None:
                raise
            if sig not in sigs:
                sigs.add(sig)
                fails.append(Failure("ctrl_boundary_lattice", case, "c14:lattice:exception-escapes:" + sig, "%s -> %r" % (c, e)))
    rec.bulk(len(cmds), n, {"lattice-commands": len(cmds)}, [{"command": cmds[5]}, {"command": cmds[400]}])
    rec.exhaustive = True
    return fails


# --- stateless control input on a fresh application
def raw_ctrl_oracle(case):
    s = Session(CFG, set(), "c14")
    try:
        t = s.app.trx[case["t"]]
        s.app.net.inject(t.ctrl_if.sock, case["data"], ("127.0.0.1", 5801))
        try:
            t.ctrl_if.handle_rx()
        except Exception as e:
            raise esc("ctrl.handle_rx", e)
        out = s.app.net.take()
        if len(out) > 1:
            raise Violation("c14:ctrl:several-replies", "%r" % (out,))
        return (["answered" if out else "ignored"], bool(out))
    finally:
        s.close()


# --------------------------------------------------------------------- trxcon
_t = {}


def prepare(ctx):
    _t["exe"] = trxif.build(ctx)


def trx():
    import os
    if "exe" not in _t:
        prepare(Ctx("C14", "quick", 1))
    k = ("t", os.getpid())
    if k not in _t:
        _t[k] = trxif.TrxIf(_t["exe"])
    return _t[k]


RSP_BASE = [b"RSP POWERON 0\0", b"RSP POWEROFF 0\0", b"RSP ECHO 0\0", b"RSP MEASURE 0 937000 -60\0", b"RSP RXTUNE 0 937000\0",
            b"RSP TXTUNE 0 892000\0", b"RSP SETSLOT 0 1 5\0", b"RSP SETTA 0 5\0", b"RSP SETFH 0 5 1 937000 892000\0",
            b"RSP POWERON 1\0", b"RSP MEASURE -1 937000\0", b"RSP SETTA -1 5\0"]


@st.composite
def trxcon_action(draw):
    k = draw(st.sampled_from(["cmd", "cmd", "cmd", "ctrl", "ctrl", "rsp", "rsp", "data", "data", "timer"]))
    if k == "rsp":
        # a response that matches one of the commands in trxcon's queue - the head (on the wire) or a later one - resolved when the
        # sequence runs from the driver's "queue" listing: "rsp <queue index> <status> <extra words>"
        return "rsp %d %s %s" % (draw(st.integers(0, 4)), draw(st.sampled_from(["0", "0", "0", "-1", "1"])), draw(st.sampled_from(["-", "-", "-60", "x", "937000 -60"])))
    if k == "cmd":
        return draw(st.sampled_from(["cmd reset", "cmd poweron", "cmd poweroff", "cmd measure 10", "cmd measure 700", "cmd setfreq_h0 20",
                                     "cmd setslot 1 2", "cmd setta 5", "cmd setta -100", "cmd setfh 5 1 3 10 20 30",
                                     "cmd setfh 0 0 64 " + " ".join(str(i) for i in range(1, 65))]))
    if k == "timer":
        return "timer"
    if k == "ctrl":
        form = draw(st.sampled_from(["base", "trunc", "mut", "fill", "nostatus", "nonnum", "random"]))
        base = draw(st.sampled_from(RSP_BASE))
        if form == "base":
            d = base
        elif form == "trunc":
            d = base[:draw(st.integers(0, len(base)))]
        elif form == "mut":
            d = draw(mutated_bytes(st.just(base)))
        elif form == "fill":
            n = draw(st.sampled_from([1022, 1023, 1024, 1025, 2000, 4000]))
            d = draw(st.sampled_from([b"RSP ", b"RSP MEASURE 0 ", b"RSP POWERON ", b"", b"RSP MEASURE 0 937000 "])) + draw(st.sampled_from([b"A", b"9", b" ", b"\xff"])) * n
        elif form == "nostatus":
            d = b"RSP " + draw(st.sampled_from([b"POWERON", b"MEASURE", b"SETFH", b"ECHO", b"POWEROFF", b"RXTUNE", b"", b"POWERON ", b"MEASURE 0", b"MEASURE 0 ", b"MEASURE 0 9"])) + draw(st.sampled_from([b"", b"\0"]))
        elif form == "nonnum":
            d = b"RSP " + draw(st.sampled_from([b"POWERON x", b"MEASURE zero 937000 -60", b"MEASURE 0 abc def", b"ECHO -", b"SETTA 99999999999999999999 5",
                                                b"MEASURE 0 99999999999 99999999999", b"MEASURE 0 -5 5"])) + b"\0"
        else:
            d = draw(st.binary(max_size=80))
        return "ctrl " + d.hex()
    # data
    form = draw(st.sampled_from(["valid", "len", "mut", "random", "ver", "fn"]))
    if form == "valid":
        d = ref_trxd.encode(draw(S.rx_msg(vers=(0,))), draw(st.booleans()))
    elif form == "len":
        n = draw(st.sampled_from([0, 1, 7, 8, 9, 155, 156, 157, 158, 159, 451, 452, 453, 454, 455, 511, 512, 513, 600, 2000]))
        d = bytes([draw(st.integers(0, 7))]) + draw(st.binary(min_size=max(0, n - 1), max_size=max(0, n - 1))) if n else b""
        d = d[:n]
    elif form == "mut":
        d = draw(mutated_bytes(st.just(ref_trxd.encode(draw(S.rx_msg(vers=(0,))), True))))
    elif form == "ver":
        d = bytearray(ref_trxd.encode(draw(S.rx_msg(vers=(0,))), True))
        d[0] |= draw(st.integers(1, 15)) << 4
        d = bytes(d)
    elif form == "fn":
        d = bytearray(ref_trxd.encode(draw(S.rx_msg(vers=(0,))), True))
        d[1:5] = draw(st.sampled_from([b"\x00\x29\x70\x00", b"\x00\x29\x6f\xff", b"\xff\xff\xff\xff", b"\x80\x00\x00\x00"]))
        d = bytes(d)
    else:
        d = draw(st.binary(max_size=64))
    return "data " + d.hex()


def trxcon_oracle(case):
    t = trx()
    cl = set()
    try:
        t.req("open")
        for a in case["actions"]:
            if a.startswith("rsp "):
                _, idx, status, extra = a.split(" ", 3)
                queue = [bytes.fromhex(l.split(" ")[1]) for l in t.req("queue") if l.startswith("Q ") and len(l) > 2]
                if not queue:
                    continue
                c_ = queue[int(idx) % len(queue)].split(b" ", 2)
                d = b"RSP " + (c_[1] if len(c_) > 1 else b"") + b" " + status.encode() + ((b" " + c_[2]) if len(c_) > 2 else b"") + \
                    ((b" " + extra.encode()) if extra != "-" else b"") + b"\0"
                a = "ctrl " + d.hex()
                cl.add("matching-response" if int(idx) % len(queue) == 0 else "response-to-a-queued-command")
            out = trxif.TrxIf.parse(t.req(a))
            kind = a.split(" ")[0]
            if kind == "data" and out["burst_ind"] is not None:
                cl.add("burst-accepted")
                bi = out["burst_ind"]
                if bi["len"] not in (148, 444) or bi["fn"] >= ref_trxd.HYPERFRAME or bi["tn"] > 7:
                    raise Violation("c14:trxcon:illegal-burst-indicated", "fn=%d tn=%d len=%d handed to the scheduler" % (bi["fn"], bi["tn"], bi["len"]))
            if kind == "ctrl" and out["rc"] == 0 and out["state"] and out["state"]["term"] == 0:
                cl.add("response-processed")
            if out["state"] and out["state"]["term"] == 1:
                cl.add("fsm-terminated-and-reopened")
    except cbuild.DriverCrash as c:
        raise Violation("c14:trxcon:" + c.signature(), "after %r:\n%s" % ([x[:60] for x in case["actions"]][-4:], c.stderr[-700:]))
    return (sorted(cl) or ["all-rejected"], bool(cl & {"burst-accepted", "response-processed"}),
            {"actions": [x[:70] for x in case["actions"]]})


# ------------------------------------------------- coverage-guided campaigns (atheris / libFuzzer)
def atheris_campaigns(ctx, rec):
    """atheris (python3-vt) on the byte-level targets of checks/c14_targets.py: each target with an empty corpus and
    with a small seed corpus, libFuzzer -seed derived from the run seed.  A Python exception inside a target is a
    crash; the saved input is replayed in-process to obtain the signature."""
    import glob
    import os
    import re
    import shutil
    import subprocess
    from concurrent.futures import ThreadPoolExecutor
    from checks import c14_targets
    from harness.core import VERIF, Failure
    py = shutil.which("python3-vt") or "/opt/veriftools/pyvenv/bin/python"
    if not os.path.exists(py):
        raise HarnessError("python3-vt (atheris) not found")
    budget = {"quick": {"parse": 40000, "capture": 15000, "ctrl": 2500, "data": 2500},
              "thorough": {"parse": 2000000, "capture": 500000, "ctrl": 100000, "data": 100000}}[ctx.tier]
    base = os.path.join(ctx.build, "atheris")
    shutil.rmtree(base, ignore_errors=True)
    jobs = []
    for mode in sorted(c14_targets.TARGETS):
        for flavour in ("empty", "seeded"):
            for shard in range(1 if ctx.tier == "quick" else 2):
                d = os.path.join(base, "%s-%s-%d" % (mode, flavour, shard))
                corp, art = os.path.join(d, "corpus"), os.path.join(d, "artifacts") + os.sep
                os.makedirs(corp)
                os.makedirs(art)
                if flavour == "seeded":
                    for k, blob in enumerate(c14_targets.seed_corpus(mode)):
                        with open(os.path.join(corp, "seed%d" % k), "wb") as f:
                            f.write(blob)
                cmd = [py, os.path.join(VERIF, "harness", "fuzz_c14.py"), mode, corp, "-runs=%d" % budget[mode],
                       "-seed=%d" % (ctx.seed * 100 + shard + 1), "-artifact_prefix=" + art, "-print_final_stats=1",
                       "-max_len=%d" % (1200 if mode != "capture" else 2000), "-timeout=60"]
                jobs.append((mode, flavour, d, cmd))

    def run(job):
        mode, flavour, d, cmd = job
        env = dict(os.environ, PYTHONHASHSEED="0", PYTHONDONTWRITEBYTECODE="1")
        r = subprocess.run(cmd, capture_output=True, text=True, env=env, cwd=d)
        return job, r
    with ThreadPoolExecutor(16) as ex:
        results = list(ex.map(run, jobs))
    fails, sigs = [], set()
    for (mode, flavour, d, cmd), r in results:
        m = re.search(r"stat::number_of_executed_units:\s+(\d+)", r.stderr)
        n = int(m.group(1)) if m else 0
        corp = glob.glob(os.path.join(d, "corpus", "*"))
        rec.bulk(n, len(corp), {"atheris:%s:%s:execs" % (mode, flavour): n, "atheris:%s:%s:corpus" % (mode, flavour): len(corp)},
                 [{"mode": mode, "corpus_unit": open(c, "rb").read()[:60]} for c in sorted(corp)[:1]])
        arts = glob.glob(os.path.join(d, "artifacts", "crash-*")) + glob.glob(os.path.join(d, "artifacts", "timeout-*"))
        if r.returncode != 0 and not arts and n == 0:
            raise HarnessError("atheris campaign %s/%s failed to run: %s" % (mode, flavour, r.stderr[-400:]))
        for a_ in arts:
            data = open(a_, "rb").read()
            case = {"mode": mode, "data": data}
            try:
                fuzz_replay(case)
                sig, msg = "c14:atheris:%s:crash-not-reproduced-in-process" % mode, r.stderr[-600:]
            except Violation as v:
                sig, msg = v.sig, v.msg
            if sig not in sigs:
                sigs.add(sig)
                fails.append(Failure("atheris_campaigns", case, sig, msg))
    return fails


def libfuzzer_trxif(ctx, rec):
    """libFuzzer (clang -fsanitize=fuzzer,address,undefined) on the trxcon transceiver interface: the entry function in
    c/drv_trxif.c rebuilds the interface for every input, decodes the bytes into {command, CTRL datagram, DATA datagram,
    timer} actions and traps if an illegal burst reaches the scheduler; sanitizer reports are failures."""
    import glob
    import os
    import re
    import shutil
    import subprocess
    from concurrent.futures import ThreadPoolExecutor
    from harness.core import Failure
    exe = trxif.build(ctx, fuzz=True)
    runs = {"quick": 60000, "thorough": 1000000}[ctx.tier]
    nsh = {"quick": 2, "thorough": 8}[ctx.tier]
    base = os.path.join(ctx.build, "libfuzzer")
    shutil.rmtree(base, ignore_errors=True)

    def rec_(op, payload):
        return bytes([op, len(payload) & 255, len(payload) >> 8]) + payload
    seeds = [rec_(0, bytes([0])) + rec_(1, b"RSP POWEROFF 0\0") + rec_(1, b"RSP ECHO 0\0"),
             rec_(0, bytes([3, 10, 0])) + rec_(1, b"RSP MEASURE 0 937000 -60\0"),
             rec_(0, bytes([7, 3, 5])) + rec_(1, b"RSP SETFH 0 5 0 936000 891000\0"),
             rec_(2, ref_trxd.encode({"cls": "rx", "ver": 0, "fn": 1000, "tn": 3, "rssi": -60, "toa256": -5, "soft": [100] * 148}, True)),
             rec_(2, ref_trxd.encode({"cls": "rx", "ver": 0, "fn": 2715647, "tn": 7, "rssi": -120, "toa256": 32767, "soft": [-127] * 444}, False)),
             rec_(0, bytes([1])) + rec_(3, b"") + rec_(3, b"") + rec_(3, b"") + rec_(3, b"")]
    jobs = []
    for sh_ in range(nsh):
        d = os.path.join(base, "shard%d" % sh_)
        corp, art = os.path.join(d, "corpus"), os.path.join(d, "artifacts") + os.sep
        os.makedirs(corp)
        os.makedirs(art)
        if sh_ % 2:
            for k, blob in enumerate(seeds):
                with open(os.path.join(corp, "seed%d" % k), "wb") as f:
                    f.write(blob)
        jobs.append((d, [exe, corp, "-runs=%d" % runs, "-seed=%d" % (ctx.seed * 100 + sh_ + 1), "-artifact_prefix=" + art,
                         "-print_final_stats=1", "-max_len=3000", "-timeout=30"]))

    def run(job):
        d, cmd = job
        env = dict(os.environ)
        env.update(cbuild.SAN_ENV)
        env["ASAN_OPTIONS"] += ":quarantine_size_mb=16"
        return job, subprocess.run(cmd, capture_output=True, text=True, env=env, cwd=d)
    with ThreadPoolExecutor(16) as ex:
        results = list(ex.map(run, jobs))
    fails, sigs = [], set()
    for (d, cmd), r in results:
        m = re.search(r"stat::number_of_executed_units:\s+(\d+)", r.stderr)
        n = int(m.group(1)) if m else 0
        corp = glob.glob(os.path.join(d, "corpus", "*"))
        rec.bulk(n, len(corp), {"libfuzzer:execs": n, "libfuzzer:corpus-units": len(corp)},
                 [{"corpus_unit": open(c, "rb").read()[:60]} for c in sorted(corp)[:1]])
        arts = [a_ for a_ in glob.glob(os.path.join(d, "artifacts", "*")) if os.path.basename(a_).split("-")[0] in ("crash", "timeout", "oom", "leak")]
        if r.returncode != 0 and not arts and n == 0:
            raise HarnessError("libFuzzer campaign failed to run: %s" % r.stderr[-400:])
        for a_ in arts:
            c = cbuild.DriverCrash(r.returncode, r.stderr, [])
            sig = "c14:trxcon-fuzz:" + c.signature()
            if sig not in sigs:
                sigs.add(sig)
                fails.append(Failure("libfuzzer_trxif", {"data": open(a_, "rb").read()}, sig, r.stderr[-800:]))
    return fails


def libfuzzer_replay(case):
    import os
    import subprocess
    ctx = Ctx("C14", "quick", 1)
    exe = trxif.build(ctx, fuzz=True)
    p = os.path.join(ctx.build, "replay-input.bin")
    with open(p, "wb") as f:
        f.write(bytes(case["data"]))
    env = dict(os.environ)
    env.update(cbuild.SAN_ENV)
    r = subprocess.run([exe, p], capture_output=True, text=True, env=env)
    if r.returncode != 0:
        raise Violation("c14:trxcon-fuzz:" + cbuild.DriverCrash(r.returncode, r.stderr, []).signature(), r.stderr[-600:])


def fuzz_replay(case):
    from checks import c14_targets
    try:
        c14_targets.TARGETS[case["mode"]](bytes(case["data"]))
    except AssertionError as e:
        raise Violation("c14:fuzz:%s:%s" % (case["mode"], str(e)[:60]), str(e))
    except Exception as e:
        sig = repo_frame_sig(e)
        if sig is None:
            raise
        raise Violation("c14:fuzz:%s:exception-escapes:%s" % (case["mode"], sig), "%r" % (e,))


SUBS = [
    Sub("raw_data_datagrams", strategy=st.fixed_dictionaries({"data": datagram_st}), oracle=raw_data_oracle,
        examples={"quick": 3000, "thorough": 100000}),
    Sub("raw_ctrl_datagrams", strategy=st.fixed_dictionaries({"t": st.integers(0, 1), "data": st.one_of(hostile_ctrl(), st.binary(max_size=200))}),
        oracle=raw_ctrl_oracle, examples={"quick": 1500, "thorough": 60000}),
    Sub("capture_files", strategy=st.fixed_dictionaries({"data": capture_bytes(), "skip": st.integers(0, 6), "count": st.integers(1, 6),
                                                         "idx": st.integers(0, 6)}), oracle=capture_oracle,
        examples={"quick": 1500, "thorough": 60000}),
    Sub("sessions", strategy=session_case(), oracle=session_oracle, examples={"quick": 500, "thorough": 20000}),
    Sub("ctrl_boundary_lattice", fn=ctrl_boundary_lattice),
    Sub("trxcon_callbacks", strategy=st.fixed_dictionaries({"actions": st.lists(trxcon_action(), min_size=1, max_size=12)}),
        oracle=trxcon_oracle, examples={"quick": 1500, "thorough": 60000}, prepare=prepare),
    Sub("atheris_campaigns", fn=atheris_campaigns),
    Sub("libfuzzer_trxif", fn=libfuzzer_trxif),
]
[x for x in SUBS if x.name == "ctrl_boundary_lattice"][0].replay = session_oracle
SUBS[-2].replay = fuzz_replay
SUBS[-1].replay = libfuzzer_replay
