# Byte-level fuzz targets for C14 (one entry function per receive path, oracle inside the target, all state
# rebuilt at the top of every iteration).  Used by the atheris campaigns (python3-vt) and, for replay, in-process.
import io

from harness.appfactory import App
from harness import tk  # noqa: F401
from refs import ref_trxd

import data_dump
import data_msg

BITS = bytes((i * 7) & 1 for i in range(148))
TUNE = [("890000", "935000"), ("935000", "890000")]


def t_parse(data):
    """TxMsg/RxMsg.parse_msg: nothing but ValueError may be raised"""
    for cls in (data_msg.TxMsg, data_msg.RxMsg):
        for buf in (bytes(data), bytearray(data)):
            try:
                cls().parse_msg(buf)
            except ValueError:
                pass


def t_capture(data):
    """capture reader: nothing may be raised, whatever the file contains"""
    for call in (lambda f: f.parse_all(), lambda f: f.parse_msg(1), lambda f: f.parse_all(skip=1, count=2)):
        f = data_dump.DATADumpFile(io.BytesIO(bytes(data)))
        try:
            call(f)
        finally:
            f.f.close()


def _app():
    a = App()
    for i, t in enumerate(a.trx):
        for c in ("RXTUNE " + TUNE[i][0], "TXTUNE " + TUNE[i][1], "POWERON"):
            a.cmd(t, c)
    return a


def _probe(a, fn=1000):
    """valid traffic in both directions through the clock path"""
    for t in a.trx:
        ver = t.data_if._hdr_ver if t.data_if._hdr_ver in (0, 1) else 0
        pkt = ref_trxd.encode({"cls": "tx", "ver": ver, "fn": fn, "tn": 1, "pwr": 0, "bits": BITS})
        a.net.inject(t.data_if.sock, pkt, a.l1_addr(t, "data"))
        t.recv_data_msg()
    for k in range(2):
        a.app.clck_handler(fn + k)


def t_ctrl(data):
    """one or more hostile control datagrams (split at 0xfe 0xfe), then valid traffic and valid commands"""
    a = _app()
    try:
        for part in bytes(data).split(b"\xfe\xfe")[:4]:
            a.net.inject(a.trx[0].ctrl_if.sock, part, ("127.0.0.1", 5801))
            a.trx[0].ctrl_if.handle_rx()
            out = a.net.take()
            if len(out) > 1:
                raise AssertionError("several replies to one control datagram")
        _probe(a)
        if a.cmd(a.trx[0], "NOMTXPOWER") != "RSP NOMTXPOWER 0 50":
            raise AssertionError("transceiver no longer answers NOMTXPOWER correctly")
    finally:
        a.close()


def t_data(data):
    """hostile DATA datagram into a running transceiver, then ticks and valid traffic"""
    a = _app()
    try:
        t = a.trx[0]
        a.net.inject(t.data_if.sock, bytes(data), a.l1_addr(t, "data"))
        r = t.recv_data_msg()
        if r:
            a.app.clck_handler(r.fn % ref_trxd.HYPERFRAME if isinstance(r.fn, int) else 0)
        _probe(a)
    finally:
        a.close()


TARGETS = {"parse": t_parse, "capture": t_capture, "ctrl": t_ctrl, "data": t_data}


def seed_corpus(mode):
    if mode in ("parse", "data"):
        m = {"cls": "tx", "ver": 0, "fn": 1000, "tn": 2, "pwr": 5, "bits": BITS}
        r = {"cls": "rx", "ver": 1, "fn": 7, "tn": 1, "rssi": -60, "toa256": 3, "ci": 90, "nope": False, "mod": "GMSK", "tsc_set": 0, "tsc": 3,
             "soft": [127] * 148}
        return [ref_trxd.encode(m), ref_trxd.encode(dict(m, ver=1)), ref_trxd.encode(r), ref_trxd.encode(dict(r, nope=True, soft=None))]
    if mode == "capture":
        e = ref_trxd.encode({"cls": "tx", "ver": 0, "fn": 1000, "tn": 2, "pwr": 5, "bits": BITS})
        return [bytes([1, 0, len(e)]) + e, bytes([2, 0, 8]) + bytes(8)]
    return [b"CMD POWEROFF\0", b"CMD RXTUNE 935000\0", b"CMD SETFH 5 0 935000 890000 935200 890200\0", b"CMD FAKE_TOA 10 5\0", b"CMD FAKE_DROP 3 2\0",
            b"CMD SETFORMAT 1\0", b"CMD FAKE_RSSI -60 3\0\xfe\xfeCMD FAKE_RSSI 2\0", b"CMD SETTA 63\0", b"CMD FAKE_TRXC_DELAY 0\0", b"CMD MEASURE 935000\0"]
