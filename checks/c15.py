# C15 - Capture files return exactly what was stored, even after truncation
import io
import os

from hypothesis import strategies as st

from harness import strategies as S
from harness import tk
from harness.core import Sub, Violation, BUILD
from checks.c01 import expected_fields

import data_dump

RULE = ("lists of 0..8 valid Tx/Rx messages (all versions, modulations, NOPE) appended with append_msg/append_all in "
        "generated chunks to a BytesIO or to a real file opened by path ('a+b'); oracle: parse_all() returns the list "
        "(field equality), parse_msg(i) the i-th / None beyond the end, parse_all(skip,count) == msgs[skip:][:count] "
        "for ALL (skip,count) in ({None}+0..n+2)x({None}+1..n+2); then the file is cut at every offset (files <= 900 "
        "octets) or at all offsets in/around every record header and tail plus sampled body offsets (longer files): "
        "parse_all() must return exactly the completely written records, random access must agree, nothing raises; generated read sequences on ONE "
        "reader object (no read may depend on an earlier one); many_records: files with 255..1000 records; aligned_files: a record header placed at "
        "every offset 2^k-3..2^k+1 (k = 9..17, thorough ..20) by solving for the record mix, reads around and behind it; read_histories: 4..24 generated parse_msg / parse_all / append_msg calls on ONE reader object over 2..9 small records. "
        "Non-trivial: >=2 messages of different record size and >=1 cut inside a record header and inside a body.")
LEVEL = "exploration"
ASSUMPTIONS = ["for skip beyond the end both [] and False (the documented range error) are accepted",
               "a crash while writing is modelled as a prefix of the byte stream (no torn/reordered writes)"]

TMPDIR = os.path.join(BUILD, "tmp-c15")


@st.composite
def case_st(draw):
    n = draw(st.integers(0, 8))
    small = draw(st.booleans())
    msgs = []
    for _ in range(n):
        if small:
            m = draw(st.one_of(S.tx_msg(lens=(148,)), S.rx_msg()))
        else:
            m = draw(S.any_msg())
        msgs.append(m)
    # chunks: sizes of successive append_all() calls; size 1 chunks use append_msg
    n = len(msgs)
    chunks = []
    left = n
    while left > 0:
        k = draw(st.integers(1, left))
        chunks.append(k)
        left -= k
    calls = draw(st.lists(st.one_of(st.tuples(st.just("idx"), st.integers(0, n + 1)),
                                     st.tuples(st.just("all"), st.one_of(st.none(), st.integers(0, n + 1)), st.one_of(st.none(), st.integers(1, n + 1)))),
                          max_size=8))
    return {"msgs": msgs, "chunks": chunks, "calls": calls, "realfile": draw(st.sampled_from((False, False, False, True))),
            "cuts": draw(st.lists(st.integers(0, 10 ** 6), min_size=6, max_size=6))}


def same(got_msg, m):
    if got_msg is None or got_msg is False:
        return False
    got = tk.msg_fields(got_msg)
    if got["cls"] != m["cls"]:
        return False
    return all(got.get(k) == v for k, v in expected_fields(m).items())


def check_list(got, exp, what):
    if got is False or got is None or len(got) != len(exp) or not all(same(g, m) for g, m in zip(got, exp)):
        raise Violation("c15:%s" % what.split()[0], "%s: got %s expected %d messages" % (
            what, got if not isinstance(got, list) else "%d messages%s" % (len(got), "" if len(got) != len(exp) else " (fields differ)"), len(exp)))


def oracle(case):
    msgs, chunks = case["msgs"], case["chunks"]
    n = len(msgs)
    path = None
    if case["realfile"]:
        os.makedirs(TMPDIR, exist_ok=True)
        path = os.path.join(TMPDIR, "cap-%d.bin" % os.getpid())
        if os.path.exists(path):
            os.unlink(path)
        ddf = data_dump.DATADumpFile(path)
    else:
        ddf = data_dump.DATADumpFile(io.BytesIO())
    try:
        i = 0
        for k in chunks:
            objs = [tk.build_msg(m) for m in msgs[i:i + k]]
            if k == 1:
                ddf.append_msg(objs[0])
            else:
                ddf.append_all(objs)
            i += k
        ddf.f.flush()
        ddf.f.seek(0)
        blob = ddf.f.read()
        # record boundaries from the documented framing: tag + 16-bit BE length + message
        ends, pos = [], 0
        from refs import ref_trxd
        for m in msgs:
            enc = ref_trxd.encode(m, False)
            tag = 1 if m["cls"] == "tx" else 2
            rec = bytes([tag, len(enc) // 256, len(enc) % 256]) + enc
            if blob[pos:pos + len(rec)] != rec:
                raise Violation("c15:record-framing", "record %d is not tag|len16be|message" % len(ends))
            pos += len(rec)
            ends.append(pos)
        if pos != len(blob):
            raise Violation("c15:record-framing", "%d stray octets after the last record" % (len(blob) - pos))

        # a generated sequence of reads on the same reader object first (no read may depend on the previous one)
        for c_ in case.get("calls", []):
            c_ = tuple(c_)
            if c_[0] == "idx":
                r = ddf.parse_msg(c_[1])
                if c_[1] < n:
                    if not same(r, msgs[c_[1]]):
                        raise Violation("c15:parse_msg-after-other-reads", "parse_msg(%d) != stored message after %r" % (c_[1], case["calls"]))
                elif r is not None:
                    raise Violation("c15:parse_msg-beyond-end", "parse_msg(%d) of %d returned %r" % (c_[1], n, r))
            else:
                skip, count = c_[1], c_[2]
                r = ddf.parse_all(skip=skip, count=count)
                exp_ = msgs[(skip or 0):]
                if count is not None:
                    exp_ = exp_[:count]
                if skip is not None and skip > n and r is False:
                    continue
                check_list(r, exp_, "parse_all(skip=%r,count=%r)-after-other-reads" % (skip, count))
        # full read, random access, all slices
        check_list(ddf.parse_all(), msgs, "parse_all()")
        for idx in (range(n + 2) if n <= 8 else [0, 1, 127, 128, 254, 255, 256, 257, n - 1, n, n + 1]):
            r = ddf.parse_msg(idx)
            if idx < n:
                if not same(r, msgs[idx]):
                    raise Violation("c15:parse_msg", "parse_msg(%d) != stored message %d" % (idx, idx))
            elif r is not None:
                raise Violation("c15:parse_msg-beyond-end", "parse_msg(%d) of %d returned %r" % (idx, n, r))
        skips = [None] + (list(range(n + 3)) if n <= 8 else [0, 1, 2, 254, 255, 256, 257, n - 1, n, n + 1])
        counts = [None] + (list(range(1, n + 3)) if n <= 8 else [1, 2, 255, 256, 257, n - 1, n, n + 2])
        for skip in skips:
            for count in counts:
                r = ddf.parse_all(skip=skip, count=count)
                exp = msgs[(skip or 0):]
                if count is not None:
                    exp = exp[:count]
                if skip is not None and skip > n and r is False:
                    continue
                check_list(r, exp, "parse_all(skip=%r,count=%r)" % (skip, count))
    finally:
        ddf.f.close()
        if path and os.path.exists(path):
            os.unlink(path)

    # truncation at crash points
    L = len(blob)
    if L <= 900:
        offsets = set(range(L + 1))
    else:
        offsets = {0, L}
        start = 0
        # (with hundreds of records only the neighbourhood of a few records is cut: first, 255th..257th, last)
        pick = set(range(len(ends))) if len(ends) <= 8 else {0, 1, 254, 255, 256, len(ends) - 2, len(ends) - 1}
        for ri, e in enumerate(ends):
            if ri not in pick:
                start = e
                continue
            offsets.update(range(max(0, start - 1), min(L, start + 13) + 1))
            offsets.update(range(max(0, e - 3), e + 1))
            body = e - start
            for c in case["cuts"]:
                offsets.add(start + c % body)
            start = e
    in_hdr = in_body = 0
    for k in sorted(offsets):
        complete = sum(1 for e in ends if e <= k)
        start = ends[complete - 1] if complete else 0
        if k > start:
            if k - start < 3:
                in_hdr += 1
            else:
                in_body += 1
        if case["realfile"] and k in (0, L // 2, L - 1, ends[0] - 1 if ends else 0):
            # the same cut on a real file that is then re-opened by path (mode "a+b"), as after a crash
            tp = os.path.join(TMPDIR, "cut-%d.bin" % os.getpid())
            with open(tp, "wb") as f_:
                f_.write(blob)
            os.truncate(tp, k)
            t = data_dump.DATADumpFile(tp)
        else:
            t = data_dump.DATADumpFile(io.BytesIO(blob[:k]))
        try:
            try:
                r = t.parse_all()
            except Exception as e:
                raise Violation("c15:truncated-read-raises", "cut at %d of %d: %r" % (k, L, e))
            try:
                check_list(r, msgs[:complete], "truncated parse_all() cut=%d/%d" % (k, L))
            except Violation as v:
                raise Violation("c15:truncated-read", v.msg)
            for idx in (complete - 1, complete, complete + 1):
                if idx < 0:
                    continue
                try:
                    r = t.parse_msg(idx)
                except Exception as e:
                    raise Violation("c15:truncated-read-raises", "parse_msg(%d) cut at %d: %r" % (idx, k, e))
                if idx < complete:
                    if not same(r, msgs[idx]):
                        raise Violation("c15:truncated-random-access", "parse_msg(%d) cut at %d" % (idx, k))
                elif r is not None:
                    raise Violation("c15:truncated-random-access", "parse_msg(%d) cut at %d returned %r, %d complete" % (
                        idx, k, r, complete))
        finally:
            t.f.close()
            if isinstance(getattr(t.f, "name", None), str) and os.path.exists(t.f.name):
                os.unlink(t.f.name)
    sizes = set()
    prev = 0
    for e in ends:
        sizes.add(e - prev)
        prev = e
    nt = n >= 2 and len(sizes) >= 2 and in_hdr > 0 and in_body > 0
    return (["n=%d" % n, "realfile" if case["realfile"] else "bytesio", "allcuts" if L <= 900 else "sampledcuts"], nt,
            {"msgs": [dict((k, v) for k, v in m.items() if k not in ("bits", "soft")) for m in msgs], "chunks": chunks,
             "file_len": L, "cuts_tried": len(offsets)})


# ---------------------------------------------------------------- read histories on ONE reader object
@st.composite
def read_case(draw):
    n = draw(st.integers(2, 9))
    msgs = [draw(st.one_of(S.rx_msg(vers=(1,)).filter(lambda m: m["nope"]), S.tx_msg(lens=(148,)), S.rx_msg())) for _ in range(n)]
    small = st.integers(0, n + 1)
    call = st.one_of(st.tuples(st.just("idx"), small), st.tuples(st.just("idx"), small),
                     st.tuples(st.just("all"), st.one_of(st.none(), small), st.one_of(st.none(), st.integers(1, n + 1))),
                     st.tuples(st.just("all"), st.none(), st.integers(1, 3)),
                     st.tuples(st.just("append"), st.integers(0, n - 1)))
    return {"msgs": msgs, "calls": [list(c) for c in draw(st.lists(call, min_size=4, max_size=24))], "realfile": draw(st.integers(0, 2)) == 0}


def read_oracle(case):
    """a long generated sequence of parse_msg(i) / parse_all(skip, count) / append_msg() calls on one DATADumpFile object:
    every read returns what the model list says, whatever was read before (no read position, cache or partial read may leak)"""
    msgs = list(case["msgs"])
    path = None
    if case["realfile"]:
        os.makedirs(TMPDIR, exist_ok=True)
        path = os.path.join(TMPDIR, "hist-%d.bin" % os.getpid())
        if os.path.exists(path):
            os.unlink(path)
        ddf = data_dump.DATADumpFile(path)
    else:
        ddf = data_dump.DATADumpFile(io.BytesIO())
    kinds = set()
    writer = None
    try:
        ddf.append_all([tk.build_msg(m) for m in msgs])
        if path:
            ddf.f.flush()
            writer = data_dump.DATADumpFile(path)
        for k, c_ in enumerate(case["calls"]):
            n = len(msgs)
            hist = [tuple(x) for x in case["calls"][max(0, k - 3):k + 1]]
            if c_[0] == "idx":
                r = ddf.parse_msg(c_[1])
                if c_[1] < n:
                    if not same(r, msgs[c_[1]]):
                        raise Violation("c15:parse_msg-after-other-reads", "call %d: parse_msg(%d) != stored message; last calls %r" % (k, c_[1], hist))
                elif r is not None:
                    raise Violation("c15:parse_msg-beyond-end", "call %d: parse_msg(%d) of %d returned %r; last calls %r" % (k, c_[1], n, r, hist))
            elif c_[0] == "all":
                skip, count = c_[1], c_[2]
                r = ddf.parse_all(skip=skip, count=count)
                exp_ = msgs[(skip or 0):]
                if count is not None:
                    exp_ = exp_[:count]
                if skip is not None and skip > n and r is False:
                    continue
                check_list(r, exp_, "parse_all(skip=%r,count=%r)-after-other-reads (call %d, last calls %r)" % (skip, count, k, hist))
            else:
                m = dict(msgs[c_[1] % n], fn=(msgs[c_[1] % n]["fn"] + 1) % 2715648)
                if writer is not None and c_[1] % 2:
                    # the capture grows through ANOTHER handle on the same file (a sniffer writing while a reader is open):
                    # what is on disk when a read starts must be returned
                    writer.append_msg(tk.build_msg(m))
                    writer.f.flush()
                    kinds.add("append-via-second-handle")
                else:
                    ddf.append_msg(tk.build_msg(m))
                    ddf.f.flush()
                msgs.append(m)
            kinds.add(c_[0])
    finally:
        ddf.f.close()
        if writer is not None:
            writer.f.close()
        if path and os.path.exists(path):
            os.unlink(path)
    return (["reads=%d" % min(24, len(case["calls"]) // 4 * 4), "realfile" if case["realfile"] else "bytesio"] + sorted(kinds),
            len(kinds) >= 2, {"n": len(case["msgs"]), "calls": case["calls"][:12]})


def many_records(ctx, rec):
    """files with hundreds of records (record counts / indices beyond 2^8): same oracle on a few deterministic files"""
    from harness.core import Failure
    fails = []
    for n in ((257, 300) if ctx.tier == "quick" else (255, 256, 257, 300, 1000)):
        base = [{"cls": "tx", "ver": 0, "fn": 10, "tn": 1, "pwr": 7, "bits": bytes(i & 1 for i in range(148))},
                {"cls": "rx", "ver": 1, "fn": 20, "tn": 2, "rssi": -60, "toa256": 3, "ci": 5, "nope": True, "mod": "GMSK", "soft": None},
                {"cls": "rx", "ver": 1, "fn": 30, "tn": 3, "rssi": -70, "toa256": -3, "ci": -5, "nope": False, "mod": "AQPSK", "tsc_set": 1, "tsc": 2,
                 "soft": [((i * 3 + ctx.seed) % 255) - 127 for i in range(296)]}]
        msgs = [dict(base[j % 3], fn=(base[j % 3]["fn"] + j) % 2715648) for j in range(n)]
        case = {"msgs": msgs, "chunks": [100, 1, n - 101], "realfile": n == 257, "cuts": [5, 50, 100, 150, 200, 250]}
        try:
            cl, nt, _ = oracle(case)
            rec.note({"n": n}, cl + ["many-records"], True, {"n_records": n})
        except Violation as v:
            fails.append(Failure("many_records", case, v.sig, v.msg))
    return fails


def aligned_files(ctx, rec):
    """files in which a record header starts exactly at, just before or just after a power-of-two offset (block / buffer sizes
    512..128Ki, thorough up to 1Mi): reads that walk the headers must not depend on where the headers fall"""
    from harness.core import Failure
    fails, seen = [], set()
    tx = {"cls": "tx", "ver": 0, "fn": 10, "tn": 1, "pwr": 7, "bits": bytes(i & 1 for i in range(148))}          # 157 octets per record
    nope = {"cls": "rx", "ver": 1, "fn": 20, "tn": 2, "rssi": -60, "toa256": 3, "ci": 5, "nope": True, "mod": "GMSK", "soft": None}  # 14
    rx0 = {"cls": "rx", "ver": 0, "fn": 30, "tn": 3, "rssi": -70, "toa256": -3, "soft": [((i * 3 + ctx.seed) % 255) - 127 for i in range(148)]}  # 159
    ws = [512, 1024, 4096, 8192, 16384, 32768, 65536, 131072] + ([262144, 524288, 1048576] if ctx.tier == "thorough" else [])
    for W in ws:
        for delta in (-3, -2, -1, 0, 1):
            T = W + delta
            sol = None
            for c in range(0, 14):
                for b in range(0, 157):
                    rest = T - c * 159 - b * 14
                    if rest >= 0 and rest % 157 == 0:
                        sol = (rest // 157, b, c)
                        break
                if sol:
                    break
            if not sol:
                continue
            a, b, c = sol
            kinds = [tx] * a + [nope] * b + [rx0] * c
            # interleave deterministically (seed-dependent rotation) so that the sizes are mixed along the file
            order = sorted(range(len(kinds)), key=lambda i: (i * 7919 + ctx.seed * 31) % max(1, len(kinds)))
            msgs = [dict(kinds[i], fn=(kinds[i]["fn"] + j) % 2715648) for j, i in enumerate(order)]
            k = len(msgs)                       # index of the record that starts at T
            msgs += [dict(tx, fn=777), dict(nope, fn=778), dict(rx0, fn=779), dict(tx, fn=780)]
            n = len(msgs)
            ddf = data_dump.DATADumpFile(io.BytesIO())
            try:
                ddf.append_all([tk.build_msg(m) for m in msgs])
                size = ddf.f.seek(0, 2)
                try:
                    for idx in sorted(set(i for i in (0, k - 2, k - 1, k, k + 1, k + 2, n - 1, n, n + 1) if i >= 0)):
                        r = ddf.parse_msg(idx)
                        if idx < n:
                            if not same(r, msgs[idx]):
                                raise Violation("c15:parse_msg:header-at-power-of-two-offset", "parse_msg(%d) != stored message; record %d starts at "
                                                "offset %d = %d%+d of a %d-octet file" % (idx, k, T, W, delta, size))
                        elif r is not None:
                            raise Violation("c15:parse_msg-beyond-end", "parse_msg(%d) of %d returned %r" % (idx, n, r))
                    for skip in (k - 1, k, k + 1, n - 1):
                        for count in (None, 1, 3):
                            r = ddf.parse_all(skip=skip, count=count)
                            exp = msgs[skip:] if count is None else msgs[skip:][:count]
                            check_list(r, exp, "parse_all(skip=%r,count=%r):header-at-power-of-two-offset W=%d%+d" % (skip, count, W, delta))
                    check_list(ddf.parse_all(), msgs, "parse_all():header-at-power-of-two-offset W=%d%+d" % (W, delta))
                    rec.note({"W": W, "delta": delta}, ["aligned/%d" % W], True, {"n_records": n, "file_len": size, "record_at": T})
                except Violation as v:
                    if v.sig not in seen:
                        seen.add(v.sig)
                        fails.append(Failure("aligned_files", {"W": W, "delta": delta, "msgs": msgs, "k": k}, v.sig, v.msg))
            finally:
                ddf.f.close()
    return fails


def aligned_replay(case):
    msgs, k = case["msgs"], case["k"]
    ddf = data_dump.DATADumpFile(io.BytesIO())
    ddf.append_all([tk.build_msg(m) for m in msgs])
    for idx in range(max(0, k - 2), len(msgs)):
        if not same(ddf.parse_msg(idx), msgs[idx]):
            raise Violation("c15:parse_msg:header-at-power-of-two-offset", "parse_msg(%d) != stored message" % idx)
    check_list(ddf.parse_all(skip=k), msgs[k:], "parse_all(skip=%d):header-at-power-of-two-offset" % k)


SUBS = [Sub("store_read_truncate", strategy=case_st(), oracle=oracle, examples={"quick": 400, "thorough": 12000}),
        Sub("many_records", fn=many_records), Sub("aligned_files", fn=aligned_files),
        Sub("read_histories", strategy=read_case(), oracle=read_oracle, examples={"quick": 1200, "thorough": 40000})]
SUBS[1].replay = oracle
SUBS[2].replay = aligned_replay
