# C16 - Declarative codec: encode and decode are mutually inverse and length-exact
import copy

from hypothesis import strategies as st

from harness import tk  # noqa: F401
from harness.core import Sub, Violation, HarnessError, repo_frame_sig
from refs import codec_ref

import codec

RULE = ("protocol definitions are generated as trees (programs) and instantiated both as real codec objects and as a "
        "description for the independent interpreter refs/codec_ref: Uint/Int of 1..8 octets, big/little endian, offset, "
        "non-zero (also negative) multiplier; Buf fixed / flexible tail / length from an earlier integer field; Spare with "
        "filler; BitFieldSet over 1..4 octets exactly partitioned into 1..32-bit fields, MSB- or LSB-first, with fixed-value and "
        "spare members; nested Envelope.f() (static size as len, or flexible tail); Sequence.f() of a non-empty item envelope "
        "(tail or byte-length-prefixed via get_len); optional fields whose get_pres reads an earlier 1-bit field; depth <= 3. "
        "Values are encodable by construction. Oracles: to_bytes == reference layout octet for octet; from_bytes(to_bytes(v)) "
        "== v; re-encoding a decoding of the octets with randomised spare bits/octets gives the canonical octets; with "
        "check_len=False and trailing junk exactly len(encoding) octets are consumed; every cut before the flexible tail, "
        "trailing octets under check_len, a flipped bit in a fixed-value bit-field -> DecodeError; out-of-range integer, "
        "wrong-size buffer (one too long, one too short, empty; top level, nested envelope, sequence item) -> EncodeError; nothing else escapes; an over-wide bit-field value is truncated to its width; the same "
        "Envelope object encoded again after a validity-preserving change made in place at the deepest nesting level (top-level dict "
        "untouched where possible) gives the layout of the current content. "
        "Non-trivial: definition with a multi-octet or LSB-first BitFieldSet and a nesting or callback-driven field.")
LEVEL = "exploration"
ASSUMPTIONS = ["only compositions demonstrated by test_codec.py / trxd_proto.py: flexible fields at the tail only, bit-field "
               "partitions that fill their octets, fresh BitField objects per set, sequence items of >= 1 octet",
               "presence/length callbacks read fields of the same envelope level"]


class Names:
    def __init__(self):
        self.n = 0

    def new(self, p):
        self.n += 1
        return "%s%d" % (p, self.n)


@st.composite
def int_field(draw, names, plain=False, nlen=None):
    n = nlen or draw(st.sampled_from([1, 1, 2, 2, 3, 4, 4, 5, 8]))
    signed = False if plain else draw(st.booleans())
    bo = "big" if plain else draw(st.sampled_from(["big", "big", "little"]))
    offset = 0 if plain else draw(st.sampled_from([0, 0, 0, 1, -1, 7, -128, 1000]))
    mult = 1 if plain else draw(st.sampled_from([1, 1, 1, -1, 2, -3, 10, 256]))
    lo, hi = (-(1 << (8 * n - 1)), (1 << (8 * n - 1)) - 1) if signed else (0, (1 << (8 * n)) - 1)
    raw = draw(st.one_of(st.sampled_from([lo, hi, 0 if lo <= 0 else lo, min(hi, 1), max(lo, -1)]), st.integers(lo, hi)))
    name = names.new("i")
    return ({"k": "int", "name": name, "len": n, "bo": bo, "signed": signed, "offset": offset, "mult": mult},
            {name: raw * mult + offset})


@st.composite
def bits_field(draw, names, need_flag=False):
    n = draw(st.sampled_from([1, 1, 2, 2, 3, 4]))
    total = 8 * n
    fields, vals = [], {}
    left = total
    flag = None
    while left > 0:
        if need_flag and flag is None:
            bl = 1
        else:
            bl = draw(st.one_of(st.integers(1, min(left, 8)), st.integers(1, min(left, 32))))
        kind = "named" if (need_flag and flag is None) else draw(st.sampled_from(["named", "named", "named", "spare", "fixed"]))
        if kind == "spare":
            fields.append({"name": None, "bl": bl})
        else:
            name = names.new("b")
            v = draw(st.one_of(st.sampled_from([0, (1 << bl) - 1]), st.integers(0, (1 << bl) - 1)))
            if kind == "fixed":
                fields.append({"name": name, "bl": bl, "val": v})
            else:
                fields.append({"name": name, "bl": bl})
                vals[name] = v
                if need_flag and flag is None:
                    flag = name
        left -= bl
    if need_flag:
        # put the flag anywhere in the set
        i = draw(st.integers(0, len(fields) - 1))
        fields.insert(i, fields.pop(0))
    spec = {"k": "bits", "len": n, "order": draw(st.sampled_from(["big", "big", "little", "lsb"])), "fields": fields,
            "explicit_len": draw(st.booleans())}
    return spec, vals, flag


@st.composite
def simple_field(draw, names, depth):
    """one fixed-size-or-self-delimiting field group: returns (list of specs, vals)"""
    kind = draw(st.sampled_from(["int", "int", "buf", "spare", "bits", "bits", "lenbuf", "optional", "env", "lenseq"]))
    if kind in ("env", "lenseq") and depth <= 0:
        kind = "int"
    if kind == "int":
        s, v = draw(int_field(names))
        return [s], v
    if kind == "buf":
        n = draw(st.integers(1, 6))
        name = names.new("d")
        return [{"k": "buf", "name": name, "len": n}], {name: draw(st.binary(min_size=n, max_size=n))}
    if kind == "spare":
        return [{"k": "spare", "name": names.new("s"), "len": draw(st.integers(1, 4)), "filler": draw(st.sampled_from([0, 0, 0x2b, 0xff]))}], {}
    if kind == "bits":
        s, v, _ = draw(bits_field(names))
        return [s], v
    if kind == "lenbuf":
        ls, lv = draw(int_field(names, plain=True, nlen=draw(st.sampled_from([1, 2]))))
        data = draw(st.one_of(st.binary(min_size=0, max_size=9), st.binary(min_size=0, max_size=9),
                              st.binary(min_size=250, max_size=255) if ls["len"] == 1 else st.binary(min_size=250, max_size=600)))
        name = names.new("d")
        return [ls, {"k": "buf", "name": name, "lenfrom": ls["name"]}], {ls["name"]: len(data), name: data}
    if kind == "optional":
        bs, bv, flag = draw(bits_field(names, need_flag=True))
        inner, iv = draw(simple_field(names, 0))
        # only single, non-bits, non-callback fields are made optional
        if len(inner) != 1 or inner[0]["k"] not in ("int", "buf", "spare"):
            s, iv = draw(int_field(names))
            inner = [s]
        inner[0]["pres"] = flag
        bv.update(iv)
        return [bs] + inner, bv
    if kind == "env":
        fields, vals = draw(envelope(names, depth - 1, allow_tail=False))
        name = names.new("e")
        size = codec_ref.static_size(fields)
        if size is None:
            # dynamic nested size: give it a length prefix through get_len
            ls, _ = draw(int_field(names, plain=True, nlen=2))
            n = len(codec_ref.encode(fields, vals).octets)
            return [ls, {"k": "env", "name": name, "fields": fields, "lenfrom": ls["name"]}], {ls["name"]: n, name: vals}
        return [{"k": "env", "name": name, "fields": fields, "len": size}], {name: vals}
    # lenseq: byte-length-prefixed sequence
    item, items = draw(seq_items(names, depth - 1))
    ls, _ = draw(int_field(names, plain=True, nlen=2))
    name = names.new("q")
    n = sum(len(codec_ref.encode(item, it).octets) for it in items)
    return [ls, {"k": "seq", "name": name, "item": item, "lenfrom": ls["name"]}], {ls["name"]: n, name: items}


@st.composite
def seq_items(draw, names, depth):
    """item definition (consumes >= 1 octet) and 0..4 value assignments for it"""
    style = draw(st.sampled_from(["fixed", "tlv", "fixed", "nested"]))
    sub = Names()
    sub.n = names.n + 100
    if style == "tlv":
        ts, _ = draw(int_field(sub, plain=True, nlen=1))
        ls, _ = draw(int_field(sub, plain=True, nlen=1))
        vname = sub.new("d")
        item = [ts, ls, {"k": "buf", "name": vname, "lenfrom": ls["name"]}]
        items = []
        for _ in range(draw(st.one_of(st.integers(0, 4), st.integers(0, 4), st.integers(0, 4), st.sampled_from([255, 256, 300])))):
            data = draw(st.binary(max_size=6)) if len(items) < 6 else items[len(items) % 5][vname]
            items.append({ts["name"]: len(items) % 256, ls["name"]: len(data), vname: data})
        names.n = sub.n
        return item, items
    if style == "nested":
        # item = length octet + nested envelope of that length (the nested envelope checks its own length)
        inner, v0 = draw(envelope(sub, 0, allow_tail=False, static_only=True))
        n_in = codec_ref.static_size(inner)
        ls, _ = draw(int_field(sub, plain=True, nlen=1))
        ename = sub.new("e")
        item = [ls, {"k": "env", "name": ename, "fields": inner, "lenfrom": ls["name"]}]
        items = [{ls["name"]: n_in, ename: v0}]
        for _ in range(draw(st.integers(0, 3))):
            items.append({ls["name"]: n_in, ename: draw(values_for(inner))})
        names.n = sub.n
        return item, items
    # fixed-structure item: regenerate values for each element by drawing the same structure again is not possible,
    # so the item is a small static envelope whose values are re-drawn per element
    item, v0 = draw(envelope(sub, min(depth, 1), allow_tail=False, static_only=True))
    items = [v0]
    for _ in range(draw(st.integers(0, 3))):
        items.append(draw(values_for(item)))
    if draw(st.integers(0, 5)) == 0:
        items = []
    names.n = sub.n
    return item, items


@st.composite
def values_for(draw, fields):
    """fresh in-range values for a static definition"""
    vals = {}
    for f in fields:
        k = f["k"]
        if k == "int":
            n = f["len"]
            lo, hi = (-(1 << (8 * n - 1)), (1 << (8 * n - 1)) - 1) if f["signed"] else (0, (1 << (8 * n)) - 1)
            vals[f["name"]] = draw(st.integers(lo, hi)) * f["mult"] + f["offset"]
        elif k == "buf":
            vals[f["name"]] = draw(st.binary(min_size=f["len"], max_size=f["len"]))
        elif k == "bits":
            for b in f["fields"]:
                if b.get("name") is not None and b.get("val") is None:
                    vals[b["name"]] = draw(st.integers(0, (1 << b["bl"]) - 1))
        elif k == "env":
            vals[f["name"]] = draw(values_for(f["fields"]))
    return vals


@st.composite
def envelope(draw, names, depth, allow_tail=True, static_only=False):
    specs, vals = [], {}
    for _ in range(draw(st.integers(1, 4))):
        if static_only:
            kind = draw(st.sampled_from(["int", "buf", "bits", "spare"]))
            if kind == "int":
                s, v = draw(int_field(names))
                s, v = [s], v
            elif kind == "bits":
                b, v, _ = draw(bits_field(names))
                s = [b]
            elif kind == "buf":
                n = draw(st.integers(1, 4))
                name = names.new("d")
                s, v = [{"k": "buf", "name": name, "len": n}], {name: draw(st.binary(min_size=n, max_size=n))}
            else:
                s, v = [{"k": "spare", "name": names.new("s"), "len": draw(st.integers(1, 2)), "filler": 0}], {}
        else:
            s, v = draw(simple_field(names, depth))
        specs += s
        vals.update(v)
    if static_only and not any(f["k"] != "spare" for f in specs):
        s, v = draw(int_field(names))
        specs.append(s)
        vals.update(v)
    if allow_tail and draw(st.integers(0, 2)) == 0:
        tk_ = draw(st.sampled_from(["buf", "seq", "env"] if depth > 0 else ["buf"]))
        if tk_ == "buf":
            name = names.new("t")
            specs.append({"k": "buf", "name": name, "len": 0})
            vals[name] = draw(st.one_of(st.binary(max_size=12), st.binary(max_size=12), st.binary(min_size=240, max_size=700)))
        elif tk_ == "seq":
            item, items = draw(seq_items(names, depth - 1))
            name = names.new("q")
            specs.append({"k": "seq", "name": name, "item": item})
            vals[name] = items
        else:
            fields, v = draw(envelope(names, depth - 1, allow_tail=True))
            name = names.new("e")
            specs.append({"k": "env", "name": name, "fields": fields, "len": 0})
            vals[name] = v
    return specs, vals


@st.composite
def case_st(draw):
    names = Names()
    fields, vals = draw(envelope(names, draw(st.sampled_from([1, 2, 2, 3])), allow_tail=True))
    return {"fields": fields, "vals": vals, "junk": draw(st.binary(min_size=1, max_size=5)),
            "noise": draw(st.binary(min_size=64, max_size=64)), "pick": draw(st.integers(0, 10 ** 6))}


# ------------------------------------------------------------------ builders
def build_fields(fields):
    out = []
    for f in fields:
        k = f["k"]
        if k == "int":
            cls = type("U_%s" % f["name"], (codec.Int if f["signed"] else codec.Uint,), {"BO": f["bo"], "DEF_LEN": f["len"]})
            kw = {}
            if f["offset"]:
                kw["offset"] = f["offset"]
            if f["mult"] != 1:
                kw["mult"] = f["mult"]
            obj = cls(f["name"], **kw)
        elif k == "buf":
            obj = codec.Buf(f["name"], len=f["len"]) if f.get("len") else codec.Buf(f["name"])
        elif k == "spare":
            obj = codec.Spare(f["name"], len=f["len"], filler=bytes([f["filler"]]))
        elif k == "bits":
            bfs = []
            for b in f["fields"]:
                if b.get("name") is None:
                    bfs.append(codec.BitField.Spare(b["bl"]))
                elif b.get("val") is not None:
                    bfs.append(codec.BitField(b["name"], b["bl"], val=b["val"]))
                else:
                    bfs.append(codec.BitField(b["name"], b["bl"]))
            kw = {"set": tuple(bfs), "order": f["order"]}
            if f.get("explicit_len"):
                kw["len"] = f["len"]
            obj = codec.BitFieldSet(**kw)
        elif k == "env":
            env = build_env(f["fields"])
            obj = env.f(f["name"], len=f["len"]) if f.get("len") else env.f(f["name"])
        elif k == "seq":
            seq = codec.Sequence(item=build_env(f["item"]))
            obj = seq.f(f["name"])
        else:
            raise HarnessError(k)
        if "lenfrom" in f:
            obj.get_len = (lambda ref: (lambda v, _: v[ref]))(f["lenfrom"])
        if "pres" in f:
            obj.get_pres = (lambda ref: (lambda v: bool(v[ref])))(f["pres"])
        out.append(obj)
    return tuple(out)


def build_env(fields, check_len=True):
    cls = type("GenEnvelope", (codec.Envelope,), {"STRUCT": build_fields(fields)})
    return cls(check_len=check_len)


def expected(fields, vals):
    e = {}
    for f in fields:
        if not codec_ref.present(f, vals):
            continue
        k = f["k"]
        if k in ("int", "buf"):
            e[f["name"]] = vals[f["name"]]
        elif k == "bits":
            for b in f["fields"]:
                if b.get("name") is not None:
                    e[b["name"]] = b["val"] if b.get("val") is not None else vals[b["name"]] % (1 << b["bl"])
        elif k == "env":
            e[f["name"]] = expected(f["fields"], vals[f["name"]])
        elif k == "seq":
            e[f["name"]] = [expected(f["item"], it) for it in vals[f["name"]]]
    return e


def same(got, exp):
    if isinstance(exp, dict):
        return isinstance(got, dict) and all(k in got and same(got[k], v) for k, v in exp.items())
    if isinstance(exp, list):
        return isinstance(got, list) and len(got) == len(exp) and all(same(g, e) for g, e in zip(got, exp))
    if isinstance(exp, (bytes, bytearray)):
        return bytes(got) == bytes(exp)
    return got == exp and type(got) is type(exp)


def add_slack(fields, vals, j, in_seq_items=None):
    """give the first length-prefixed nested envelope found j spare octets it does not declare (reference side only)"""
    for f in fields:
        if f["k"] == "env" and "lenfrom" in f:
            f["fields"] = list(f["fields"]) + [{"k": "spare", "name": "slack", "len": j, "filler": 0xEE}]
            for v in (in_seq_items if in_seq_items is not None else [vals]):
                if v[f["lenfrom"]] + j > 255 and any(x["name"] == f["lenfrom"] and x["len"] == 1 for x in fields if x["k"] == "int"):
                    return False
                v[f["lenfrom"]] += j
            return True
    for f in fields:
        if f["k"] == "seq" and codec_ref.present(f, vals) and vals.get(f["name"]):
            if add_slack(f["item"], None, j, in_seq_items=vals[f["name"]]):
                if "lenfrom" in f:
                    # the sequence's own byte-length prefix grows with its items
                    vals[f["lenfrom"]] = sum(len(codec_ref.encode(f["item"], it).octets) for it in vals[f["name"]])
                return True
        if f["k"] == "env" and "lenfrom" not in f and codec_ref.present(f, vals) and not f.get("len"):
            if add_slack(f["fields"], vals[f["name"]], j):
                return True
    return False


def classify(fields, acc=None, depth=0):
    acc = acc if acc is not None else set()
    for f in fields:
        k = f["k"]
        if k == "bits":
            acc.add("bits")
            if f["len"] > 1:
                acc.add("bits-multi-octet")
            if f["order"] != "big":
                acc.add("bits-lsb-first")
        if "lenfrom" in f or "pres" in f:
            acc.add("callback")
        if k == "env":
            acc.add("nested")
            classify(f["fields"], acc, depth + 1)
        if k == "seq":
            acc.add("sequence")
            classify(f["item"], acc, depth + 1)
        if k == "int" and (f["mult"] != 1 or f["offset"]):
            acc.add("int-offset-mult")
        if k == "int" and f["bo"] == "little":
            acc.add("int-little-endian")
    return acc


def collect_mutations(fields, targets, depth, out):
    """validity-preserving in-place changes of a value assignment: (nesting depth, closure applying it to every dict in targets)"""
    vals = targets[0]
    refd = set(x.get("pres") for x in fields) | set(x.get("lenfrom") for x in fields)
    for f in fields:
        k = f["k"]
        if k == "bits":
            for b in f["fields"]:
                if b.get("name") is not None and b.get("val") is None and b["name"] not in refd and b["name"] in vals:
                    out.append((depth, lambda n=b["name"], ts=targets: [t.__setitem__(n, t[n] ^ 1) for t in ts]))
            continue
        if not codec_ref.present(f, vals) or f.get("name") not in vals:
            continue
        name = f["name"]
        if k == "buf" and len(vals[name]) > 0:
            out.append((depth, lambda n=name, ts=targets: [t.__setitem__(n, bytes(x ^ 0xff for x in t[n])) for t in ts]))
        elif k == "int" and name not in refd:
            def chg(n=name, ts=targets, f=f):
                for t in ts:
                    raw = (t[n] - f["offset"]) // f["mult"]
                    t[n] = (raw ^ 1) * f["mult"] + f["offset"]
            out.append((depth, chg))
        elif k == "env":
            collect_mutations(f["fields"], [t[name] for t in targets], depth + 1, out)
        elif k == "seq":
            for i in range(len(vals[name])):
                collect_mutations(f["item"], [t[name][i] for t in targets], depth + 1, out)


def decode(env, data):
    n = env.from_bytes(data)
    return n, dict(env.c)


def oracle(case):
    fields, vals = case["fields"], case["vals"]
    try:
        lay = codec_ref.encode(fields, vals)
    except codec_ref.Unencodable as e:
        raise HarnessError("generator produced an unencodable assignment: %s" % e)
    ref = bytes(lay.octets)
    env = build_env(fields)
    # 1. encoder vs independent layout
    env.c = dict(vals)
    try:
        enc = env.to_bytes()
    except codec.EncodeError as e:
        raise Violation("c16:encodable-refused", "EncodeError %r for in-range values" % (e,))
    if bytes(enc) != ref:
        i = next((k for k in range(min(len(enc), len(ref))) if enc[k] != ref[k]), min(len(enc), len(ref)))
        raise Violation("c16:encoding-differs-from-layout", "octet %d: codec %s, layout %s (lengths %d/%d)" % (
            i, bytes(enc[i:i + 4]).hex(), ref[i:i + 4].hex(), len(enc), len(ref)))
    # 2. decode(encode(v)) == v and length-exactness
    try:
        n, got = decode(env, ref)
    except codec.DecodeError as e:
        raise Violation("c16:own-encoding-rejected", "DecodeError %r" % (e,))
    if n != len(ref):
        raise Violation("c16:consumed-length", "from_bytes returned %r for %d octets" % (n, len(ref)))
    exp = expected(fields, vals)
    if not same(got, exp):
        raise Violation("c16:roundtrip-values", "decoded %r, encoded %r" % (got, exp))
    # 2b. no aliasing of the caller's buffer: decode from a bytearray, scribble over it, the decoded content stays
    buf_ = bytearray(ref)
    env_a = build_env(fields)
    try:
        env_a.from_bytes(buf_)
        for i_ in range(len(buf_)):
            buf_[i_] = (buf_[i_] + 0x55) & 0xff
        again_ = bytes(env_a.to_bytes())
    except (codec.DecodeError, codec.EncodeError) as e:
        raise Violation("c16:decode-from-bytearray", "%r" % (e,))
    if not same(dict(env_a.c), exp) or again_ != ref:
        raise Violation("c16:decoded-content-aliases-input", "content decoded from a bytearray changed when the caller re-used the buffer")
    # 3. canonical re-encoding with spare bits / octets randomised
    noisy = bytes(b ^ (case["noise"][i % 64] & lay.spare[i]) for i, b in enumerate(ref))
    if noisy != ref:
        try:
            n2, got2 = decode(env, noisy)
            env.c = got2
            re = env.to_bytes()
        except (codec.DecodeError, codec.EncodeError) as e:
            raise Violation("c16:spare-bits-not-ignored", "%r" % (e,))
        if bytes(re) != ref:
            raise Violation("c16:reencoding-not-canonical", "re-encoded %s, canonical %s" % (bytes(re).hex(), ref.hex()))
    # 4. trailing junk
    if lay.tail is None:
        env_nc = build_env(fields, check_len=False)
        try:
            n3 = env_nc.from_bytes(ref + case["junk"])
        except codec.DecodeError as e:
            raise Violation("c16:check_len-off-rejects-tail", "%r" % (e,))
        if n3 != len(ref):
            raise Violation("c16:consumed-length", "with trailing junk from_bytes consumed %r of %d" % (n3, len(ref)))
        try:
            build_env(fields).from_bytes(ref + case["junk"])
            raise Violation("c16:trailing-octets-accepted", "check_len=True accepted %d extra octets" % len(case["junk"]))
        except codec.DecodeError:
            pass
    # 5. short input: every cut before the flexible tail
    limit = len(ref) if lay.tail is None else lay.tail
    cuts = range(limit) if limit <= 120 else sorted(set(list(range(40)) + list(range(40, limit, 13)) + list(range(limit - 10, limit))))
    for cut in cuts:
        for cl_ in (True, False):          # short input is short whether or not trailing octets are tolerated
            try:
                build_env(fields, check_len=cl_).from_bytes(ref[:cut])
            except codec.DecodeError:
                continue
            except Exception as e:
                if repo_frame_sig(e) is None:
                    raise
                raise Violation("c16:short-input-other-exception", "%r at cut %d" % (e, cut))
            raise Violation("c16:short-input-accepted", "prefix of %d of %d octets decoded (check_len=%s)" % (cut, len(ref), cl_))
    # 5b. slack inside a length-prefixed nested envelope (also inside sequence items): the nested envelope checks its length
    f2, v2 = copy.deepcopy(fields), copy.deepcopy(vals)
    if add_slack(f2, v2, 1 + case["pick"] % 3):
        try:
            slack = bytes(codec_ref.encode(f2, v2).octets)
        except codec_ref.Unencodable:
            slack = None
        if slack is not None:
            try:
                build_env(fields).from_bytes(slack)
                raise Violation("c16:nested-tail-octets-accepted", "octets left over inside a length-prefixed nested envelope were accepted")
            except codec.DecodeError:
                pass
    # 6. fixed-value mismatch
    if lay.fixed:
        idx, mask = lay.fixed[case["pick"] % len(lay.fixed)]
        bit = 1 << (mask.bit_length() - 1)
        bad = bytearray(ref)
        bad[idx] ^= bit
        try:
            build_env(fields).from_bytes(bytes(bad))
            raise Violation("c16:fixed-value-mismatch-accepted", "octet %d bit %#x flipped" % (idx, bit))
        except codec.DecodeError:
            pass
    # 7. unencodable values at the top level
    for f in fields:
        if f["k"] == "int" and codec_ref.present(f, vals):
            n_ = f["len"]
            hi = ((1 << (8 * n_ - 1)) - 1) if f["signed"] else ((1 << (8 * n_)) - 1)
            lo = -(1 << (8 * n_ - 1)) if f["signed"] else 0
            for raw in (hi + 1, lo - 1):
                env.c = dict(vals)
                env.c[f["name"]] = raw * f["mult"] + f["offset"]
                if any(x.get("lenfrom") == f["name"] for x in fields):
                    continue
                try:
                    env.to_bytes()
                    raise Violation("c16:out-of-range-integer-encoded", "raw %d in a %d-octet %s field" % (raw, n_, "signed" if f["signed"] else "unsigned"))
                except codec.EncodeError:
                    pass
            break
    for f in fields:
        if f["k"] == "buf" and f.get("len") and codec_ref.present(f, vals):
            for n_ in sorted({f["len"] + 1, f["len"] - 1, 0}):
                env.c = dict(vals)
                env.c[f["name"]] = bytes([0x5a]) * n_
                try:
                    env.to_bytes()
                    raise Violation("c16:wrong-size-buffer-encoded", "%d octets in a %d-octet Buf (top level)" % (n_, f["len"]))
                except codec.EncodeError:
                    pass
            break
    for f in fields:
        # ... and inside the first nested envelope / first item of the first non-empty sequence
        if f["k"] == "env" and codec_ref.present(f, vals) and isinstance(vals.get(f["name"]), dict):
            def nested_vals(name, v, f=f):
                d = copy.deepcopy(vals)
                if name is not None:
                    d[f["name"]][name] = v
                return d
            inner = vals[f["name"]]
            if any(x["k"] == "buf" and x.get("len") and codec_ref.present(x, inner) for x in f["fields"]):
                for x in f["fields"]:
                    if x["k"] == "buf" and x.get("len") and codec_ref.present(x, inner):
                        for n_ in sorted({x["len"] + 1, x["len"] - 1, 0}):
                            env.c = nested_vals(x["name"], bytes([0x5a]) * n_)
                            try:
                                env.to_bytes()
                                raise Violation("c16:wrong-size-buffer-encoded", "%d octets in a %d-octet Buf (nested envelope)" % (n_, x["len"]))
                            except codec.EncodeError:
                                pass
                        break
                break
        if f["k"] == "seq" and codec_ref.present(f, vals) and vals.get(f["name"]):
            item0 = vals[f["name"]][0]
            hit = False
            for x in f["item"]:
                if x["k"] == "buf" and x.get("len") and codec_ref.present(x, item0):
                    for n_ in sorted({x["len"] + 1, x["len"] - 1, 0}):
                        d = copy.deepcopy(vals)
                        d[f["name"]][0][x["name"]] = bytes([0x5a]) * n_
                        env.c = d
                        try:
                            env.to_bytes()
                            raise Violation("c16:wrong-size-buffer-encoded", "%d octets in a %d-octet Buf (sequence item)" % (n_, x["len"]))
                        except codec.EncodeError:
                            pass
                    hit = True
                    break
            if hit:
                break
    # 8. over-wide bit-field value
    for f in fields:
        if f["k"] == "bits":
            refs = set(x.get("pres") for x in fields) | set(x.get("lenfrom") for x in fields)
            named = [b for b in f["fields"] if b.get("name") is not None and b.get("val") is None and b["name"] not in refs]
            if named:
                b = named[case["pick"] % len(named)]
                env.c = dict(vals)
                env.c[b["name"]] = vals[b["name"]] + (1 << b["bl"]) * (1 + case["pick"] % 5)
                try:
                    wide = env.to_bytes()
                except codec.EncodeError as e:
                    raise Violation("c16:over-wide-bitfield-refused", "%r" % (e,))
                if bytes(wide) != ref:
                    raise Violation("c16:over-wide-bitfield-leaks", "field %s (%d bits): %s instead of %s" % (b["name"], b["bl"], bytes(wide).hex(), ref.hex()))
                break
    # 9. the same Envelope object encoded again after its content was changed in place (preferably deep inside a nested
    #    envelope / sequence item, with the top-level dict untouched): the second encoding is that of the CURRENT content
    cands = []
    model = copy.deepcopy(vals)
    env9 = build_env(fields)
    env9.c = copy.deepcopy(vals)
    collect_mutations(fields, [model, env9.c], 0, cands)
    life = None
    if cands:
        deepest = max(d for d, _ in cands)
        pool = [fn for d, fn in cands if d == deepest]
        try:
            first = bytes(env9.to_bytes())
            pool[case["pick"] % len(pool)]()
            second = bytes(env9.to_bytes())
        except codec.EncodeError as e:
            raise Violation("c16:life:encodable-refused", "%r" % (e,))
        want = bytes(codec_ref.encode(fields, model).octets)
        if first != ref or second != want:
            raise Violation("c16:encoding-differs-from-layout:after-in-place-change", "object encoded, content changed in place at nesting depth %d, "
                            "encoded again: %s, layout of the current content %s" % (deepest, second.hex()[:80], want.hex()[:80]))
        life = "in-place-change/depth%d" % min(deepest, 2)
    # 10. the same Envelope object decoding a second datagram in which an optional field that the first one carried is absent:
    #     nothing of the first content may stay behind (decode(encode(v)) == v also for a re-used object)
    opt = next((f for f in fields if f.get("pres") and codec_ref.present(f, vals) and f.get("name") in vals), None)
    if opt is not None:
        v_b = copy.deepcopy(vals)
        v_b[opt["pres"]] = 0
        del v_b[opt["name"]]
        try:
            ref_b = bytes(codec_ref.encode(fields, v_b).octets)
        except codec_ref.Unencodable:
            ref_b = None
        if ref_b is not None:
            env10 = build_env(fields)
            try:
                env10.from_bytes(ref)
                env10.from_bytes(ref_b)
                again = bytes(env10.to_bytes())
            except (codec.DecodeError, codec.EncodeError) as e:
                raise Violation("c16:reused-object-decode", "%r" % (e,))
            if opt["name"] in env10.c and env10.c[opt["name"]] is not None:
                raise Violation("c16:reused-object-keeps-old-content", "optional field %s absent in the second datagram still holds %r" % (
                    opt["name"], env10.c[opt["name"]]))
            if not same(dict(env10.c), expected(fields, v_b)) or again != ref_b:
                raise Violation("c16:reused-object-roundtrip", "second decode on the same object: %r" % (dict(env10.c),))
            life = (life + "+" if life else "") + "reused-decode"
    cl = classify(fields)
    if life:
        cl = set(cl) | {life}
    nt = ("bits-multi-octet" in cl or "bits-lsb-first" in cl) and bool(cl & {"nested", "callback", "sequence"})
    return (sorted(cl), nt, {"fields": fields, "octets": ref.hex()})


def guarded_oracle(case):
    try:
        return oracle(case)
    except (Violation, HarnessError):
        raise
    except (codec.DecodeError, codec.EncodeError, codec.ProtocolError) as e:
        raise Violation("c16:unexpected-codec-error:%s" % type(e).__name__, "%r" % (e,))


SUBS = [Sub("generated_definitions", strategy=case_st(), oracle=guarded_oracle, examples={"quick": 2000, "thorough": 60000})]
