# C17 - TRXD PDU definitions (v0, v1, v2) have the documented structure
from hypothesis import strategies as st

from harness import strategies as S
from harness import tk
from harness.core import Sub, Violation
from refs import ref_trxd

import codec
import trxd_proto

RULE = ("(layout) per PDU class (v0/v1/v2, Rx/Tx) a value dict drawn over the field ranges - every defined modulation code, NOPE "
        "yes/no, v2 with 0..8 batched sub-PDUs each with its own modulation - must encode to the documented octet layout "
        "(independent transcription in this file / refs/ref_trxd), decode back to the same values with every sub-PDU intact, "
        "send reserved bits as zero and ignore them on receipt, and reject every other version nibble; (differential) every "
        "valid v0/v1 message generated as for C01 and encoded by data_msg (legacy padding on/off) must be accepted by the "
        "matching definition with equal ver/tn/fn/pwr|rssi/toa256, v1 MTS bits and C/I, identical burst octets, and the legacy "
        "padding landing in 'pad'; a sixth of the v2 parts are all-minimum (every octet zero) and a sixth all-maximum; pdu_sequences / "
        "pdu_object_life: several PDUs in a row, and ONE PDU object encoded again after in-place changes (top level, inside a batched sub-PDU, "
        "sub-PDU list grown / shrunk) or after decoding another datagram - always the layout of the current content. Non-trivial: EDGE-length, batched, legacy-padded or NOPE case.")
LEVEL = "exploration"
ASSUMPTIONS = ["the one modulation code the TRXD documentation reserves (0b0111) is not asserted either way; AQPSK is '1 1 X X' (all four codes 0b11xx)",
               "Tx definitions have no padding field: for legacy-padded Tx datagrams only acceptance and the burst prefix are asserted"]

MOD_CODES = {0b0000: 148, 0b0001: 148, 0b0010: 148, 0b0011: 148, 0b0100: 444, 0b0101: 444, 0b0110: 148,
             0b1000: 592, 0b1001: 592, 0b1010: 740, 0b1011: 740, 0b1100: 296, 0b1101: 296, 0b1110: 296, 0b1111: 296}


def be(v, n):
    return [(v // (256 ** (n - 1 - i))) % 256 for i in range(n)]


def twos(v, bits):
    return v if v >= 0 else v + (1 << bits)


# ------------------------------------------------------------ documented layouts
def lay_hdr(ver, d, batched=False):
    o = [((0 if batched else ver) * 16) + d["tn"]]
    if ver >= 2:
        o.append(d["batch"] * 128 + (d["shadow"] * 64 if batched else 0) + d["trxn"])
    return o


def lay_mts(d):
    return [d["nope"] * 128 + d["mod"] * 8 + d["tsc"]]


def lay_v0rx(d):
    return lay_hdr(0, d) + be(d["fn"], 4) + [-d["rssi"]] + be(twos(d["toa256"], 16), 2) + list(d["soft-bits"]) + list(d["pad"])


def lay_tx(ver, d):
    return lay_hdr(ver, d) + be(d["fn"], 4) + [d["pwr"]] + list(d["hard-bits"])


def lay_v1rx(d):
    o = lay_hdr(1, d) + be(d["fn"], 4) + [-d["rssi"]] + be(twos(d["toa256"], 16), 2) + lay_mts(d) + be(twos(d["cir"], 16), 2)
    return o + ([] if d["nope"] else list(d["soft-bits"]))


def lay_v2rx(d, reserved=None):
    o = []

    def part(x, batched):
        if reserved is not None:
            reserved.append((len(o), 0xf8 if batched else 0x08))
            if not batched:
                reserved.append((len(o) + 1, 0x40))
        o.extend(lay_hdr(2, x, batched) + lay_mts(x) + [-x["rssi"]] + be(twos(x["toa256"], 16), 2) + be(twos(x["cir"], 16), 2))
        if not batched:
            o.extend(be(x["fn"], 4))
        o.extend([] if x["nope"] else list(x["soft-bits"]))
    part(d, False)
    for b in d["bpdu"]:
        part(b, True)
    return o


def lay_v2tx(d, reserved=None):
    o = []

    def part(x, batched):
        if reserved is not None:
            reserved.append((len(o), 0xf8 if batched else 0x08))
            if not batched:
                reserved.append((len(o) + 1, 0x40))
            for k in (5, 6, 7):
                reserved.append((len(o) + k, 0xff))
        o.extend(lay_hdr(2, x, batched) + lay_mts(x) + [x["pwr"], twos(x["scpir"], 8), 0, 0, 0])
        if not batched:
            o.extend(be(x["fn"], 4))
        o.extend([] if x["nope"] else list(x["hard-bits"]))
    part(d, False)
    for b in d["bpdu"]:
        part(b, True)
    return o


# ------------------------------------------------------------------ generators
def mts_st():
    return st.fixed_dictionaries({"nope": st.sampled_from([0, 0, 0, 1]), "mod": st.sampled_from(sorted(MOD_CODES)), "tsc": st.integers(0, 7)})


@st.composite
def burst_for(draw, mts, key):
    if mts["nope"]:
        return {}
    n = MOD_CODES[mts["mod"]]
    return {key: draw(st.binary(min_size=n, max_size=n))}


@st.composite
def pdu_case(draw):
    kind = draw(st.sampled_from(["v0rx", "v0tx", "v1rx", "v1tx", "v2rx", "v2rx", "v2tx", "v2tx"]))
    d = {"tn": draw(st.integers(0, 7)), "fn": draw(st.one_of(S.fn(), st.integers(0, 2 ** 32 - 1)))}
    if kind == "v0rx":
        n = draw(st.sampled_from([148, 444]))
        d.update(rssi=-draw(st.integers(0, 255)), toa256=draw(S.biased(-32768, 32767)),
                 pad=draw(st.sampled_from([b"", b"", b"\0\0", b"\xaa"])))
        d["soft-bits"] = draw(st.binary(min_size=n, max_size=n))
    elif kind in ("v0tx", "v1tx"):
        d.update(pwr=draw(st.integers(0, 255)))
        d["hard-bits"] = draw(st.one_of(S.hard_bits(148), S.hard_bits(444), st.binary(max_size=10)))
    elif kind == "v1rx":
        m = draw(mts_st())
        d.update(m, rssi=-draw(st.integers(0, 255)), toa256=draw(S.biased(-32768, 32767)), cir=draw(S.biased(-32768, 32767)))
        d.update(draw(burst_for(m, "soft-bits")))
    else:
        rx = kind == "v2rx"

        def part(batched):
            # a sixth of the parts are all-minimum (every octet of the part is zero), a sixth all-maximum
            flavour = draw(st.sampled_from(["zero", "max", "any", "any", "any", "any"]))
            if flavour == "zero":
                m = {"nope": draw(st.sampled_from([0, 0, 1])) if not batched else 0, "mod": 0, "tsc": 0}
                x = dict(m, tn=0, batch=0, trxn=0)
                if batched:
                    x["shadow"] = 0
                x.update(dict(rssi=0, toa256=0, cir=0) if rx else dict(pwr=0, scpir=0))
                if not m["nope"]:
                    x["soft-bits" if rx else "hard-bits"] = bytes(148)
                return x
            if flavour == "max":
                m = {"nope": 0, "mod": 0b1111, "tsc": 7}
                x = dict(m, tn=7, batch=1, trxn=63)
                if batched:
                    x["shadow"] = 1
                x.update(dict(rssi=-255, toa256=-1, cir=-1) if rx else dict(pwr=255, scpir=-1))
                x["soft-bits" if rx else "hard-bits"] = b"\xff" * MOD_CODES[0b1111]
                return x
            m = draw(mts_st())
            x = dict(m, tn=draw(st.integers(0, 7)), batch=draw(st.integers(0, 1)), trxn=draw(st.integers(0, 63)))
            if batched:
                x["shadow"] = draw(st.integers(0, 1))
            if rx:
                x.update(rssi=-draw(st.integers(0, 255)), toa256=draw(S.biased(-32768, 32767)), cir=draw(S.biased(-32768, 32767)))
            else:
                x.update(pwr=draw(st.integers(0, 255)), scpir=draw(st.integers(-128, 127)))
            x.update(draw(burst_for(m, "soft-bits" if rx else "hard-bits")))
            return x
        top = part(False)
        top["fn"] = d["fn"]
        top["bpdu"] = [part(True) for _ in range(draw(st.one_of(st.integers(0, 2), st.integers(0, 8))))]
        d = top
    return {"kind": kind, "d": d, "noise": draw(st.integers(0, 255)), "badver": draw(st.integers(0, 15))}


CLS = {"v0rx": (trxd_proto.PDUv0Rx, 0, lay_v0rx), "v0tx": (trxd_proto.PDUv0Tx, 0, lambda d: lay_tx(0, d)),
       "v1rx": (trxd_proto.PDUv1Rx, 1, lay_v1rx), "v1tx": (trxd_proto.PDUv1Tx, 1, lambda d: lay_tx(1, d)),
       "v2rx": (trxd_proto.PDUv2Rx, 2, lay_v2rx), "v2tx": (trxd_proto.PDUv2Tx, 2, lay_v2tx)}


def subset_equal(got, exp):
    if isinstance(exp, dict):
        return isinstance(got, dict) and all(k in got and subset_equal(got[k], v) for k, v in exp.items())
    if isinstance(exp, list):
        return isinstance(got, list) and len(got) == len(exp) and all(subset_equal(g, e) for g, e in zip(got, exp))
    if isinstance(exp, (bytes, bytearray)):
        return bytes(got) == bytes(exp)
    return got == exp


def layout_oracle(case):
    kind, d = case["kind"], case["d"]
    cls, ver, lay = CLS[kind]
    ref = bytes(lay(d))
    pdu = cls()
    pdu.c = {k: v for k, v in d.items()}
    try:
        enc = bytes(pdu.to_bytes())
    except codec.EncodeError as e:
        raise Violation("c17:valid-values-refused:%s" % kind, "%r" % (e,))
    if enc != ref:
        i = next((k for k in range(min(len(enc), len(ref))) if enc[k] != ref[k]), min(len(enc), len(ref)))
        raise Violation("c17:layout-differs:%s" % kind, "octet %d: definition %s, documented %s (lengths %d/%d)" % (
            i, enc[i:i + 4].hex(), ref[i:i + 4].hex(), len(enc), len(ref)))
    pdu2 = cls()
    try:
        n = pdu2.from_bytes(ref)
    except codec.DecodeError as e:
        raise Violation("c17:own-encoding-rejected:%s" % kind, "%r" % (e,))
    exp = dict(d)
    if kind == "v0rx" and not d["pad"]:
        exp["pad"] = b""
    if n != len(ref) or not subset_equal(pdu2.c, exp):
        raise Violation("c17:roundtrip:%s" % kind, "decoded %r" % ({k: v for k, v in pdu2.c.items() if not isinstance(v, (bytes, bytearray))},))
    # the decoded content must not alias the caller's buffer: decode from a bytearray, scribble over it, compare again
    buf = bytearray(ref)
    pdu_a = cls()
    try:
        pdu_a.from_bytes(buf)
        for i_ in range(len(buf)):
            buf[i_] = (buf[i_] + 0x55) & 0xff
        again = bytes(pdu_a.to_bytes())
    except (codec.DecodeError, codec.EncodeError) as e:
        raise Violation("c17:decode-from-bytearray:%s" % kind, "%r" % (e,))
    if not subset_equal(pdu_a.c, exp) or again != ref:
        raise Violation("c17:decoded-content-aliases-input:%s" % kind, "PDU decoded from a bytearray changed when the caller re-used the buffer")
    # reserved bits ignored on receipt (top-level and batched headers, spare octets)
    reserved = [(0, 0x08)]
    if ver >= 2:
        reserved = []
        lay(d, reserved)
    noisy = bytearray(ref)
    for k, (off, mask) in enumerate(reserved):
        noisy[off] ^= mask & ((case["noise"] * (k + 1) * 37) % 256 | (case["noise"] and 0x88))
    if bytes(noisy) != ref:
        p3 = cls()
        try:
            p3.from_bytes(bytes(noisy))
        except codec.DecodeError as e:
            raise Violation("c17:reserved-bits-not-ignored:%s" % kind, "%r" % (e,))
        if not subset_equal(p3.c, exp):
            raise Violation("c17:reserved-bits-change-values:%s" % kind, "")
    # wrong version nibble rejected
    if case["badver"] != ver:
        bad = bytearray(ref)
        bad[0] = (case["badver"] << 4) | (bad[0] & 0x0f)
        try:
            cls().from_bytes(bytes(bad))
            raise Violation("c17:wrong-version-accepted:%s" % kind, "version nibble %d accepted by the v%d definition" % (case["badver"], ver))
        except codec.DecodeError:
            pass
    cl = [kind]
    nt = False
    if "bpdu" in d and d["bpdu"]:
        cl.append("batched")
        nt = True
        if any(not any(v for k, v in b.items() if not isinstance(v, (bytes, bytearray))) and
               not any(b.get("soft-bits", b.get("hard-bits", b""))) for b in d["bpdu"]):
            cl.append("all-zero-sub-PDU")
    if d.get("nope"):
        cl.append("nope")
        nt = True
    if len(d.get("soft-bits", d.get("hard-bits", b""))) > 148:
        cl.append("edge-length")
        nt = True
    if d.get("pad"):
        cl.append("padded")
        nt = True
    return (cl, nt, {"kind": kind, "d": {k: v for k, v in d.items() if k != "bpdu"}, "n_bpdu": len(d.get("bpdu", []))})


# ----------------------------------------------------- differential with data_msg
def diff_oracle(case):
    m, legacy = case["m"], case["legacy"]
    data = bytes(tk.build_msg(m).gen_msg(legacy))
    kind = "v%d%s" % (m["ver"], m["cls"])
    if m["cls"] == "rx" and m["ver"] == 1 and not m["nope"] and (ref_trxd.mts_octet(m) >> 3) & 15 == 0b0111:
        # (access-burst GMSK, TSC set 1) maps onto the code the TRXD documentation reserves (0b0111): not asserted
        return (["diff/reserved-modulation-code-skipped"], False)
    cls = CLS[kind][0]
    pdu = cls()
    try:
        n = pdu.from_bytes(data)
    except codec.DecodeError as e:
        raise Violation("c17:message-codec-datagram-rejected:%s:%s" % (kind, "legacy" if legacy and m["ver"] == 0 else "plain"),
                        "%r for a %d-octet datagram" % (e, len(data)))
    c = pdu.c
    exp = {"ver": m["ver"], "tn": m["tn"], "fn": m["fn"]}
    if m["cls"] == "tx":
        exp["pwr"] = m["pwr"]
    else:
        exp["rssi"] = m["rssi"]
        exp["toa256"] = m["toa256"]
        if m["ver"] == 1:
            mts = ref_trxd.mts_octet(m)
            exp.update(nope=mts >> 7, cir=m["ci"])
            if not m["nope"]:
                exp.update(mod=(mts >> 3) & 15, tsc=mts & 7)
    for k, v in exp.items():
        if c.get(k) != v:
            raise Violation("c17:differs-from-message-codec:%s:%s" % (kind, k), "%s: definition %r, message codec %r" % (k, c.get(k), v))
    if m["cls"] == "tx":
        bits = bytes(m["bits"])
        hb = bytes(c.get("hard-bits", b""))
        if hb[:len(bits)] != bits or (not (legacy and m["ver"] == 0) and hb != bits):
            raise Violation("c17:differs-from-message-codec:%s:burst" % kind, "hard-bits %d octets" % len(hb))
    elif m.get("soft") is not None:
        usb = bytes(127 - s for s in m["soft"])
        if bytes(c.get("soft-bits", b"")) != usb:
            raise Violation("c17:differs-from-message-codec:%s:burst" % kind, "soft-bits %d octets, burst has %d" % (len(c.get("soft-bits", b"")), len(usb)))
        if m["ver"] == 0:
            want = b"\0\0" if legacy else b""
            if bytes(c.get("pad", b"")) != want:
                raise Violation("c17:legacy-padding-not-in-pad", "pad=%r" % (c.get("pad"),))
    elif "soft-bits" in c and c["soft-bits"]:
        raise Violation("c17:nope-with-burst", "")
    bl = len(m["bits"]) if m["cls"] == "tx" else (0 if m.get("soft") is None else len(m["soft"]))
    return (["diff/%s/bl%d/%s" % (kind, bl, "legacy" if legacy and m["ver"] == 0 else "plain")],
            bl > 148 or bl == 0 or (legacy and m["ver"] == 0))


def pdu_sequence_oracle(case):
    """several PDUs of any classes one after the other: the definitions are module-level objects shared by all
    instances, nothing may be carried from one PDU to the next"""
    cl = set()
    for k, c in enumerate(case["pdus"]):
        try:
            r = layout_oracle(c)
        except Violation as v:
            raise Violation(v.sig + ":in-sequence", "PDU %d of %d: %s" % (k, len(case["pdus"]), v.msg))
        cl.update(r[0])
    return (sorted(cl), True, {"kinds": [c["kind"] for c in case["pdus"]]})


# ------------------------------------------------------------ one PDU object through in-place changes
FIELD_ST = {"tn": st.integers(0, 7), "trxn": st.integers(0, 63), "batch": st.integers(0, 1), "shadow": st.integers(0, 1),
            "tsc": st.integers(0, 7), "rssi": st.integers(-255, 0), "toa256": S.biased(-32768, 32767), "cir": S.biased(-32768, 32767),
            "pwr": st.integers(0, 255), "scpir": st.integers(-128, 127), "fn": st.integers(0, 2 ** 32 - 1)}
_fld = st.sampled_from(sorted(FIELD_ST)).flatmap(lambda f: st.tuples(st.just(f), FIELD_ST[f]))
_pchg = st.one_of(_fld.map(lambda t: ["set", t[0], t[1]]),
                  st.tuples(st.integers(0, 7), _fld).map(lambda t: ["bset", t[0], t[1][0], t[1][1]]),
                  st.tuples(st.integers(0, 7), _fld).map(lambda t: ["bset", t[0], t[1][0], t[1][1]]),
                  st.tuples(st.integers(0, 7), st.integers(0, 255)).map(lambda t: ["bburst", t[0], t[1]]),
                  st.integers(0, 255).map(lambda v: ["burst", v]),
                  st.integers(0, 7).map(lambda i: ["bpop", i]), st.integers(0, 7).map(lambda i: ["bdup", i]))


def _deep(x):
    if isinstance(x, dict):
        return {k: _deep(v) for k, v in x.items()}
    if isinstance(x, list):
        return [_deep(v) for v in x]
    return x


def life_oracle(case):
    """the same PDU object encoded again after its content was changed in place (top level, inside a batched sub-PDU, list grown or
    shrunk) or after it decoded another datagram: every to_bytes() must be the documented layout of the CURRENT content"""
    kind = case["kind"]
    cls, ver, lay = CLS[kind]
    model = _deep(case["d"])
    pdu = cls()
    pdu.c = _deep(case["d"])
    n_enc = n_nested = 0

    def both(fn):
        fn(model)
        fn(pdu.c)
    for k, op in enumerate(case["ops"]):
        if op[0] == "set" and op[1] in model:
            both(lambda c: c.__setitem__(op[1], op[2]))
        elif op[0] == "burst":
            key = "soft-bits" if "soft-bits" in model else ("hard-bits" if "hard-bits" in model else None)
            if key:
                both(lambda c: c.__setitem__(key, bytes([op[1]]) * len(c[key])))
        elif op[0] in ("bset", "bburst", "bpop", "bdup") and model.get("bpdu"):
            i = op[1] % len(model["bpdu"])
            if op[0] == "bset" and op[2] in model["bpdu"][i]:
                both(lambda c: c["bpdu"][i].__setitem__(op[2], op[3]))
            elif op[0] == "bburst":
                key = "soft-bits" if "soft-bits" in model["bpdu"][i] else ("hard-bits" if "hard-bits" in model["bpdu"][i] else None)
                if key:
                    both(lambda c: c["bpdu"][i].__setitem__(key, bytes([op[2]]) * len(c["bpdu"][i][key])))
            elif op[0] == "bpop":
                both(lambda c: c["bpdu"].pop(i))
            elif len(model["bpdu"]) < 8:
                both(lambda c: c["bpdu"].append(_deep(c["bpdu"][i])))
            n_nested += 1
        elif op[0] == "decode":
            other = op[1]
            model = _deep(other)
            try:
                pdu.from_bytes(bytes(lay(other)))
            except codec.DecodeError as e:
                raise Violation("c17:life:own-encoding-rejected:%s" % kind, "step %d: %r" % (k, e))
        elif op[0] == "encode":
            ref = bytes(lay(model))
            try:
                enc = bytes(pdu.to_bytes())
            except codec.EncodeError as e:
                raise Violation("c17:life:valid-values-refused:%s" % kind, "step %d: %r" % (k, e))
            n_enc += 1
            if enc != ref:
                i = next((j for j in range(min(len(enc), len(ref))) if enc[j] != ref[j]), min(len(enc), len(ref)))
                raise Violation("c17:layout-differs:%s:after-in-place-change" % kind,
                                "encoding %d of one object (step %d %r): octet %d definition %s documented %s (lengths %d/%d)" % (
                                    n_enc, k, [o[0] for o in case["ops"][:k + 1]], i, enc[i:i + 4].hex(), ref[i:i + 4].hex(), len(enc), len(ref)))
    return ([kind + "/life"] + (["nested-change"] if n_nested else []), n_enc >= 2, {"kind": kind, "ops": [o[0] for o in case["ops"]]})


@st.composite
def life_case(draw):
    c = draw(pdu_case())
    same_kind = pdu_case().filter(lambda x: x["kind"] == c["kind"])
    mid = draw(st.lists(_pchg, min_size=1, max_size=4))
    tail = draw(st.lists(st.one_of(_pchg, _pchg, st.just(["encode"])), max_size=5))
    ops = [["encode"]] + mid + [["encode"]] + tail
    if draw(st.integers(0, 3)) == 0:
        other = draw(same_kind)["d"]
        ops = ops + [["decode", other], ["encode"]] + draw(st.lists(_pchg, min_size=1, max_size=2)) + [["encode"]]
    return {"kind": c["kind"], "d": c["d"], "ops": ops}



SUBS = [
    Sub("pdu_object_life", strategy=life_case(), oracle=life_oracle, examples={"quick": 600, "thorough": 25000}),
    Sub("pdu_layouts", strategy=pdu_case(), oracle=layout_oracle, examples={"quick": 2500, "thorough": 80000}),
    Sub("pdu_sequences", strategy=st.fixed_dictionaries({"pdus": st.lists(pdu_case(), min_size=2, max_size=5)}), oracle=pdu_sequence_oracle,
        examples={"quick": 500, "thorough": 20000}),
    Sub("message_codec_differential", strategy=st.fixed_dictionaries({"m": S.any_msg(), "legacy": st.booleans()}),
        oracle=diff_oracle, examples={"quick": 2500, "thorough": 80000}),
]
