# C18 - Burst-loss simulation drops exactly the requested bursts
from hypothesis import strategies as st

from harness import simgen
from harness import strategies as S
from harness.core import Sub
from harness.session import Session

RULE = ("histories on a sender and 1..2 recipients tuned to meet (versions 0/1 drawn per transceiver): FAKE_DROP n / FAKE_DROP n "
        "period (n -2..6, period -1..5, 51, 102) to a recipient, RFMUTE 0/1 on sender or recipient, SETFORMAT, radio settings that shape forwarded "
        "bursts but must not touch NOPE indications (sender SETTA / SETPOWER, recipient FAKE_TOA / FAKE_RSSI / FAKE_CI), and bursts whose "
        "FN is drawn to hit and to miss the period. Oracle: counter model - each transmitted burst yields at each recipient "
        "exactly one of: the burst; on v1 one NOPE (header only, NOPE bit, RSSI -110, ToA256 0, C/I -30, same fn/tn); on v0 "
        "nothing. Suppressed <=> muted (either side) or (budget > 0 and fn mod period == 0), which decrements the budget; "
        "FAKE_DROP with n < 0 or period <= 0 answers -1 and changes nothing. Whether a muted burst also consumes budget is "
        "unspecified: the model keeps the set of possible budgets. Non-trivial: a budget exhausted mid-stream (a drop followed "
        "by a normally forwarded burst) and >=1 burst missing the period filter while budget remained.")
LEVEL = "exploration"
ASSUMPTIONS = ["content of forwarded bursts is C10's business: only burst-vs-NOPE-vs-nothing and the NOPE constants are asserted here"]


@st.composite
def radio_step(draw):
    """settings that shape the metadata of FORWARDED bursts (sender timing advance / power, recipient's simulated ToA / RSSI / C/I):
    a suppressed burst's NOPE indication carries the noise constants whatever these are"""
    verb = draw(st.sampled_from(["SETTA", "SETTA", "SETPOWER", "FAKE_TOA", "FAKE_RSSI", "FAKE_CI"]))
    if verb == "SETTA":
        return {"op": "cmd", "who": "s", "verb": verb, "args": [str(draw(st.one_of(st.integers(1, 63), st.integers(0, 3))))]}
    if verb == "SETPOWER":
        return {"op": "cmd", "who": "s", "verb": verb, "args": [str(draw(st.integers(0, 30)))]}
    val = {"FAKE_TOA": st.integers(-2000, 2000), "FAKE_RSSI": st.integers(-100, -50), "FAKE_CI": st.integers(-200, 300)}[verb]
    return {"op": "cmd", "who": draw(st.sampled_from(["r0", "r0", "r1"])), "verb": verb, "args": [str(draw(val)), str(draw(st.integers(0, 5)))]}


@st.composite
def case_st(draw):
    cfg = draw(simgen.app_config(max_extra=1))
    n = simgen.n_trx(cfg)
    steps = []
    period_hint = 1
    for _ in range(draw(st.integers(0, 2))):
        steps.append(draw(radio_step()))          # half of the cases start with non-default radio settings
    for _ in range(draw(st.integers(2, 60))):
        k = draw(st.sampled_from(["burst"] * 14 + ["drop", "drop", "drop", "mute", "fmt", "radio"]))
        if k == "burst" and steps and steps[-1]["op"] == "burst" and draw(st.integers(0, 3)) == 0:
            # several timeslots of one frame: the same frame number again
            steps.append({"op": "burst", "fn": steps[-1]["fn"], "tn": draw(st.integers(0, 7))})
        elif k == "burst" and draw(st.integers(0, 5)) == 0 and any(x["op"] == "burst" for x in steps):
            prev = [x for x in steps if x["op"] == "burst"][-1]
            steps.append({"op": "burst", "fn": prev["fn"], "tn": draw(st.integers(0, 7))})
        elif k == "burst":
            base = draw(st.integers(0, 20000))
            if period_hint > 1 and draw(st.booleans()):
                fn = base * period_hint             # hits the period
            else:
                fn = base * period_hint + draw(st.integers(0, max(0, period_hint - 1)))
            steps.append({"op": "burst", "fn": fn % 2715648, "tn": draw(st.integers(0, 7))})
        elif k == "drop":
            amount = draw(st.one_of(st.integers(1, 3), st.integers(1, 3), st.integers(-2, 6)))
            if draw(st.integers(0, 2)) == 0:
                args = [str(amount)]
                if amount >= 0:
                    period_hint = 1
            else:
                period = draw(st.sampled_from([-1, 0, 1, 2, 2, 3, 3, 4, 5, 51, 102]))
                args = [str(amount), str(period)]
                if amount >= 0 and period > 0:
                    period_hint = period
            steps.append({"op": "cmd", "who": draw(st.sampled_from(["r0", "r0", "r0", "r1"])), "verb": "FAKE_DROP", "args": args})
        elif k == "radio":
            steps.append(draw(radio_step()))
        elif k == "mute":
            steps.append({"op": "cmd", "who": draw(st.sampled_from(["s", "r0", "r1"])), "verb": "RFMUTE",
                          "args": [str(draw(st.sampled_from([0, 0, 1, 1, 2])))]})
        else:
            steps.append({"op": "cmd", "who": draw(st.sampled_from(["s", "r0", "r1"])), "verb": "SETFORMAT",
                          "args": [str(draw(st.sampled_from([0, 1])))]})
    if draw(st.integers(0, 14)) == 0:
        # a large budget (beyond 2^8) and enough bursts to exhaust it
        big = draw(st.sampled_from([255, 256, 257, 300]))
        steps = [{"op": "cmd", "who": "r0", "verb": "FAKE_DROP", "args": [str(big)]}] + \
                [{"op": "burst", "fn": (7 * j) % 2715648, "tn": j % 8} for j in range(big + 4)] + steps[:10]
    return {"cfg": cfg, "sender": draw(st.integers(0, n - 1)), "vers": draw(st.lists(st.sampled_from([0, 1, 1]), min_size=n, max_size=n)),
            "steps": steps}


def oracle(case):
    s = Session(case["cfg"], {"drop", "reply"}, "c18")
    try:
        n = s.n
        snd = case["sender"] % n
        others = [k for k in range(n) if k != snd]
        for i in range(n):
            s.cmd(i, "RXTUNE", ["890000" if i == snd else "935000"])
            s.cmd(i, "TXTUNE", ["935000" if i == snd else "890000"])
            s.cmd(i, "SETFORMAT", [str(case["vers"][i])])
        for i in range(n):
            s.cmd(i, "POWERON", [])
        bits = bytes(i & 1 for i in range(148))
        exhausted = missed = False
        dropped_seen = False
        rejected = 0
        for st_ in case["steps"]:
            if st_["op"] == "cmd":
                who = st_["who"]
                i = snd if who == "s" else others[int(who[1]) % len(others)]
                before = (set(s.model.trx[i].drop), s.model.trx[i].drop_period)
                s.cmd(i, st_["verb"], st_["args"])
                if st_["verb"] == "FAKE_DROP" and (set(s.model.trx[i].drop), s.model.trx[i].drop_period) == before and (
                        int(st_["args"][0]) < 0 or (len(st_["args"]) > 1 and int(st_["args"][1]) <= 0)):
                    rejected += 1
                continue
            r0 = s.model.trx[others[0]]
            budget_before = max(r0.drop)
            muted = r0.muted or s.model.trx[snd].muted
            nope0, sil0, del0 = s.stats["nope"], s.stats["silent"], s.stats["delivered"]
            s.arrive(snd, {"ver": s.model.trx[snd].ver, "fn": st_["fn"], "tn": st_["tn"], "pwr": 10, "bits": bits})
            s.tick(st_["fn"])
            if budget_before > 0 and not muted and st_["fn"] % r0.drop_period != 0:
                missed = True
            if budget_before > 0 and max(r0.drop) < budget_before and not muted:
                dropped_seen = True
            if dropped_seen and max(r0.drop) == 0 and s.stats["delivered"] > del0:
                exhausted = True
        cl = []
        if exhausted:
            cl.append("budget-exhausted-then-forwarded")
        if missed:
            cl.append("burst-misses-period")
        if rejected:
            cl.append("invalid-FAKE_DROP-rejected")
        if s.stats["nope"]:
            cl.append("NOPE-on-v1")
        if any(v == 0 for v in case["vers"]):
            cl.append("has-v0-link")
        sample = {"cfg": case["cfg"], "sender": snd, "vers": case["vers"], "steps": case["steps"], "stats": s.stats}
        return (cl, exhausted and missed, sample)
    finally:
        s.close()


SUBS = [Sub("drop_histories", strategy=case_st(), oracle=oracle, examples={"quick": 800, "thorough": 30000})]
