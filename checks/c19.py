# C19 - GSM time arithmetic is consistent across the code base
import os
import subprocess
from concurrent.futures import ThreadPoolExecutor

from harness import cbuild, tk
from harness.core import Sub, Failure, HarnessError, REPO

import gsm_shared

RULE = ("finite domain enumerated completely: every FN 0..2715647 through gsm_fn2gsmtime / gsm_gsmtime2fn (unmodified "
        "gsm_utils.c) against a div/mod reference; l1s_time_inc (unmodified firmware sync.c) from every FN with delta 1 "
        "and each delta of {0,2..60,1325,1326,2715647} (both tiers: everywhere, ~1.9e8 calls); a full-hyperframe walk of successive +1 steps incl. the wrap; "
        "generated histories: one running time stepped in place by random delta sequences (0, 1, small, superframe-sized, arbitrary, near-hyperframe) "
        "from 8 start frames at the carry points, 8 generator streams derived from VERIF_SEED; Python "
        "fn2gsm_time for every FN against the same reference and against the C output. Every evaluation is a distinct "
        "(fn, delta) pair; non-trivial = all (each is a distinct point of the finite domain).")
LEVEL = "exploration"
ASSUMPTIONS = ["C compiled for x86-64 by clang (not the ARM target)",
               "sync.c's hardware/DSP references are satisfied by never-executed weak stubs; only l1s_time_inc is called"]

HYPER = 2715648
DELTAS = [0] + list(range(2, 61)) + [1325, 1326, 2715647]


def build(ctx, uchar=False):
    """uchar: plain 'char' unsigned as on the firmware's real target (ARM ABI)"""
    b = ctx.build
    sfx = "_uc" if uchar else ""
    inc = cbuild.FW_INC + ["-I", os.path.join(cbuild.CSHIM, "fw/cfgdir/a/b")] + (["-funsigned-char"] if uchar else [])
    objs = [
        cbuild.compile_obj(os.path.join(REPO, "src/target/firmware/layer1/sync.c"), os.path.join(b, "sync%s.o" % sfx), inc),
        cbuild.compile_obj(os.path.join(REPO, "src/shared/libosmocore/src/gsm/gsm_utils.c"), os.path.join(b, "gsm_utils%s.o" % sfx), inc),
        cbuild.compile_obj(os.path.join(ctx_c("drv_gsmtime.c")), os.path.join(b, "drv%s.o" % sfx), inc),
    ]
    stubs = os.path.join(b, "stubs%s.c" % sfx)
    cbuild.weak_stubs(objs, stubs)
    objs.append(cbuild.compile_obj(stubs, os.path.join(b, "stubs%s.o" % sfx), [], sanitize=False))
    return cbuild.link(objs, os.path.join(b, "drv_gsmtime" + sfx))


def ctx_c(name):
    from harness.core import VERIF
    return os.path.join(VERIF, "c", name)


def run_drv(exe, args):
    env = dict(os.environ)
    env.update(cbuild.SAN_ENV)
    r = cbuild.run_bounded([exe] + [str(a) for a in args], env=env)
    return r


def c_side(ctx, rec):
    fails = c_side_variant(ctx, rec, False)
    have = set(f.sig for f in fails)
    for f in c_side_variant(ctx, rec, True):
        if f.sig not in have:
            f.sig += ":unsigned-char-build"
            f.case = dict(f.case, unsigned_char=True)
            fails.append(f)
    return fails


def c_side_variant(ctx, rec, uchar):
    exe = build(ctx, uchar)
    fails = []
    jobs = []
    nshard = 16
    step = (HYPER + nshard - 1) // nshard
    for i in range(nshard):
        lo, hi = i * step, min(HYPER, (i + 1) * step)
        jobs.append(("sweep-d1", ["sweep", lo, hi, 1]))
    for i in range(nshard):
        lo, hi = i * step, min(HYPER, (i + 1) * step)
        jobs.append(("sweep-deltas", ["sweep", lo, hi] + DELTAS))
    jobs.append(("walk", ["walk"]))
    n_mix = 200000 if ctx.tier == "quick" else 4000000
    for i in range(8):
        jobs.append(("mixed-delta-history", ["mixwalk", ctx.seed * 100 + i, n_mix]))
    dump = os.path.join(ctx.build, "c_times.bin")
    jobs.append(("dump", ["dump", dump]))
    with ThreadPoolExecutor(16) as ex:
        results = list(ex.map(lambda j: (j, run_drv(exe, j[1])), jobs))
    seen = set()
    for (kind, args), r in results:
        if r.returncode != 0:
            sig = "c19:sanitizer-or-crash:%s" % kind
            if sig not in seen:
                seen.add(sig)
                fails.append(Failure("c_gsmtime", {"args": args}, sig, (r.stderr or "")[-800:]))
            continue
        done = [l for l in r.stdout.splitlines() if l.startswith("DONE")]
        if not done:
            raise HarnessError("driver gave no DONE line: %r" % r.stdout[-300:])
        ev = int(done[0].split()[1].split("=")[1])
        rec.bulk(ev, ev, {kind: ev})
        for l in r.stdout.splitlines():
            if l.startswith("MISMATCH"):
                k = l.split()[1]
                sig = "c19:c-mismatch:%s" % k
                if sig not in seen:
                    seen.add(sig)
                    fails.append(Failure("c_gsmtime", {"args": args, "line": l}, sig, l))
    rec.exhaustive = True
    rec.samples.append({"driver_calls": [" ".join(str(a) for a in j[1][:5]) for j in jobs[:3]] + ["walk", "dump"]})
    return fails


def py_side(ctx, rec):
    fails = []
    dump = os.path.join(ctx.build, "c_times.bin")
    cdata = None
    if os.path.exists(dump):
        with open(dump, "rb") as f:
            cdata = f.read()
        os.unlink(dump)
        if len(cdata) != 5 * HYPER:
            cdata = None
    f2t = gsm_shared.HoppingParams.fn2gsm_time
    bad_ref = bad_c = None
    buf = bytearray(5 * HYPER)
    pos = 0
    for fn in range(HYPER):
        t = f2t(fn)
        if bad_ref is None:
            e = (fn // 1326, fn % 26, fn % 51, (fn // 51) % 8)
            if tuple(t) != e or not all(type(x) is int for x in t):
                bad_ref = (fn, t, e)
        t1, t2, t3, tc = t
        try:
            buf[pos] = t1 >> 8
            buf[pos + 1] = t1 & 255
            buf[pos + 2] = t2
            buf[pos + 3] = t3
            buf[pos + 4] = tc
        except (TypeError, ValueError):
            if bad_ref is None:
                bad_ref = (fn, t, None)
        pos += 5
    rec.bulk(HYPER, HYPER, {"py-vs-ref": HYPER})
    if bad_ref:
        fails.append(Failure("py_gsmtime", {"fn": bad_ref[0]}, "c19:py-mismatch-ref",
                             "fn2gsm_time(%d) = %r, reference %r" % bad_ref))
    if cdata is not None:
        rec.bulk(HYPER, HYPER, {"py-vs-c": HYPER})
        if bytes(buf) != cdata and not bad_ref:
            i = next(k for k in range(len(cdata)) if buf[k] != cdata[k]) // 5
            fails.append(Failure("py_gsmtime", {"fn": i}, "c19:py-differs-from-c",
                                 "fn=%d python %r C %r" % (i, f2t(i), tuple(cdata[5 * i:5 * i + 5]))))
    else:
        rec.notes.append("C dump unavailable (C side failed): python compared with the reference only")
    rec.exhaustive = True
    rec.samples.append({"fn": 2715647, "fn2gsm_time": list(f2t(2715647))})
    return fails


def replay(case):
    from harness.core import Ctx, Violation
    if "args" in case:
        exe = build(Ctx("C19", "quick", 1), bool(case.get("unsigned_char")))
        r = run_drv(exe, case["args"])
        if r.returncode != 0:
            raise Violation("c19:sanitizer-or-crash", (r.stderr or "")[-500:])
        for l in r.stdout.splitlines():
            if l.startswith("MISMATCH"):
                raise Violation("c19:c-mismatch:%s" % l.split()[1], l)
        return
    fn = case["fn"]
    t = tuple(gsm_shared.HoppingParams.fn2gsm_time(fn))
    e = (fn // 1326, fn % 26, fn % 51, (fn // 51) % 8)
    if t != e:
        raise Violation("c19:py-mismatch-ref", "fn2gsm_time(%d) = %r, reference %r" % (fn, t, e))


SUBS = [Sub("c_gsmtime", fn=c_side), Sub("py_gsmtime", fn=py_side)]
for s in SUBS:
    s.replay = replay
