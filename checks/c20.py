# C20 - Mobile Allocation decoding selects exactly the flagged cell channels
import os

from hypothesis import strategies as st

from harness import cbuild
from harness.core import Sub, Violation, Failure, REPO, VERIF, Ctx
from refs import ref_ma

RULE = ("cell allocation = subset of ARFCN 0..1023 of size 0..64 (with/without ARFCN 0, clustered / spread / band edges), bitmap "
        "length 0..9 (plus 9..255, all of which must be refused: a fifth of the generated cases and a complete enumeration), bitmap contents arbitrary but biased (single bits, all ones, bits just inside / just beyond |CA|, empty), "
        "si4 flag, pre-existing hopping flags; the function text is sliced out of the working tree's sysinfo.c and compiled "
        "verbatim with ASan/UBSan, hopping[64], freq[1024], the bitmap and hopp_len each in an exact-size heap block. Oracle "
        "refs/ref_ma (TS 44.018 10.5.2.21): the hopping list, its length (<= 64), return 0; length > 8 -> negative return and "
        "outputs untouched; length 0 -> empty list; with si4 the HOPP flags equal exactly the result set; other flag bits "
        "untouched; no sanitizer report. Non-trivial: >=1 bit inside and >=1 beyond the CA, or ARFCN 0 selected, or length in {0,8,9}.")
LEVEL = "exploration"
ASSUMPTIONS = ["sysinfo.c cannot be compiled as a whole here (needs libosmo-gprs headers): only gsm48_decode_mobile_alloc() is exercised, sliced by brace matching",
               "UBSan vla-bound is off: a zero-length VLA alone is not an out-of-bounds access"]

_d = {}


def prepare(ctx):
    b = ctx.build
    text = cbuild.slice_function(os.path.join(REPO, "src/host/layer23/src/common/sysinfo.c"), "int gsm48_decode_mobile_alloc(")
    with open(os.path.join(b, "ma_slice.inc"), "w") as f:
        f.write(text + "\n")
    obj = cbuild.compile_obj(os.path.join(VERIF, "c", "drv_ma.c"), os.path.join(b, "drv_ma.o"), ["-I", b, "-fno-sanitize=vla-bound"])
    _d["exe"] = cbuild.link([obj], os.path.join(b, "drv_ma"))


def drv():
    if "exe" not in _d:
        prepare(Ctx("C20", "quick", 1))
    k = ("d", os.getpid())
    if k not in _d:
        _d[k] = cbuild.Driver(_d["exe"], max_line=16000)
    return _d[k]


@st.composite
def case_st(draw):
    n = draw(st.one_of(st.integers(0, 64), st.sampled_from([0, 1, 7, 8, 9, 15, 16, 17, 63, 64])))
    style = draw(st.sampled_from(["cluster", "spread", "edges", "random"]))
    if style == "cluster":
        base = draw(st.integers(0, 1023))
        ca = set((base + i) % 1024 for i in range(n))
    elif style == "spread":
        step = draw(st.sampled_from([3, 7, 15, 16]))
        base = draw(st.integers(0, 1023))
        ca = set((base + i * step) % 1024 for i in range(n))
    elif style == "edges":
        pool = [0, 1, 2, 124, 125, 511, 512, 513, 885, 886, 954, 955, 1021, 1022, 1023] + list(range(30, 90))
        ca = set(pool[:n])
    else:
        ca = set(draw(st.lists(st.integers(0, 1023), min_size=n, max_size=n)))
    if draw(st.integers(0, 3)) == 0:
        ca.add(0)
    ca = sorted(ca)[:64] if 0 not in ca else ([0] + sorted(x for x in ca if x)[:63])
    # the length is an octet: every value above 8 must be refused (a fifth of the cases; all of 9..255 are also enumerated)
    ln = draw(st.one_of(st.integers(0, 9), st.integers(0, 9), st.sampled_from([0, 1, 8, 9, (len(ca) + 7) // 8]),
                        st.sampled_from([0, 1, 8, 9, (len(ca) + 7) // 8]), st.integers(9, 255)))
    kind = draw(st.sampled_from(["random", "random", "ones", "single", "edge", "zero"]))
    nb = ln * 8
    if kind == "random" or nb == 0:
        bm = draw(st.binary(min_size=ln, max_size=ln))
    elif kind == "ones":
        bm = b"\xff" * ln
    elif kind == "zero":
        bm = bytes(ln)
    else:
        bits = set()
        if kind == "single":
            bits.add(draw(st.integers(0, nb - 1)))
        else:
            for d in (-2, -1, 0, 1):
                if 0 <= len(ca) + d < nb and draw(st.booleans()):
                    bits.add(len(ca) + d)
            if draw(st.booleans()) and nb:
                bits.add(0)
        arr = bytearray(ln)
        for i in bits:
            arr[ln - 1 - i // 8] |= 1 << (i % 8)
        bm = bytes(arr)
    pre = draw(st.lists(st.integers(0, 1023), max_size=4))
    # an earlier decode of another (valid) bitmap on the same frequency array, as when SI4 is received again
    first = draw(st.one_of(st.none(), st.none(), st.binary(min_size=0, max_size=8)))
    return {"ca": ca, "len": ln, "bitmap": bm, "si4": draw(st.sampled_from([0, 1])), "pre": pre, "first": first}


def oracle(case):
    ca, ln, bm, si4, pre = case["ca"], case["len"], bytes(case["bitmap"]), case["si4"], case["pre"]
    line = "%d %d %s %d %s | %d %s" % (si4, ln, bm.hex() if ln else "-", len(ca), " ".join(map(str, ca)), len(pre), " ".join(map(str, pre)))
    first = case.get("first")
    if first is not None:
        first = bytes(first)
        line += " | %d %s" % (len(first), first.hex() if first else "-")
        if not si4:
            pass                      # without si4 the flags are never touched, by either call
        elif ln > 8:
            pre = sorted(set(ref_ma.decode(ca, first)))     # the rejected second call leaves the first call's flags
        # (with si4 and a valid second bitmap the flags are exactly the second result: checked below)
    try:
        out = drv().request(line)
    except cbuild.DriverCrash as c:
        raise Violation("c20:memory:" + c.signature(), "len=%d |CA|=%d bitmap=%s\n%s" % (ln, len(ca), bm.hex(), c.stderr[-600:]))
    r = out[0].split()
    rc, hl = int(r[1]), int(r[2])
    hop = [int(x) for x in r[3:]]
    flags = [int(x) for x in out[1].split()[1:]]
    disturbed = out[2].split()[1:]
    if disturbed:
        raise Violation("c20:other-flags-disturbed", "mask of ARFCN %s changed beyond the HOPP bit" % disturbed[:5])
    if ln > 8:
        if rc >= 0:
            raise Violation("c20:long-bitmap-accepted", "len=%d returned %d" % (ln, rc))
        if hl != 0xaa or any(h != 0xeeee for h in hop) or sorted(flags) != sorted(set(pre)):
            raise Violation("c20:rejected-but-outputs-touched", "hopp_len=%d" % hl)
        return (["len>8"], True)
    exp = ref_ma.decode(ca, bm)
    if rc != 0:
        raise Violation("c20:valid-bitmap-rejected", "rc=%d for len=%d" % (rc, ln))
    if hl > 64:
        raise Violation("c20:more-than-64-entries", "hopp_len=%d" % hl)
    got = hop[:hl]
    if got != exp:
        what = "outside-cell-allocation" if any(g not in ca for g in got) else ("order" if sorted(got) == sorted(exp) else "selection")
        raise Violation("c20:wrong-hopping-list:%s" % what, "CA(ordered)=%s bitmap=%s -> %s, expected %s" % (
            ref_ma.ordered_ca(ca)[:12], bm.hex(), got[:12], exp[:12]))
    if any(h != 0xeeee for h in hop[hl:]):
        raise Violation("c20:writes-beyond-list", "hopping[] modified beyond hopp_len")
    want_flags = sorted(set(exp)) if si4 else sorted(set(pre))
    if sorted(flags) != want_flags:
        raise Violation("c20:hopp-flags", "si4=%d flags on %s, expected %s" % (si4, flags[:10], want_flags[:10]))
    oca = ref_ma.ordered_ca(ca)
    setbits = [i for i in range(8 * ln) if (bm[ln - 1 - i // 8] >> (i % 8)) & 1]
    inside = any(i < len(oca) for i in setbits)
    beyond = any(i >= len(oca) for i in setbits)
    cl = ["len=%d" % ln]
    if inside and beyond:
        cl.append("bits-inside-and-beyond")
    if 0 in exp:
        cl.append("arfcn0-selected")
    if not ca:
        cl.append("empty-CA")
    nt = (inside and beyond) or (0 in exp) or ln in (0, 8)
    return (cl, nt)


def long_bitmaps(ctx, rec):
    """every length 9..255 (the length parameter is one octet) x three contents x si4 x two cell allocations: refused, nothing touched"""
    prepare(ctx)
    fails, seen = [], set()
    cas = [[], list(range(1, 65)), [0] + list(range(500, 563))]
    for ln in range(9, 256):
        for content in (bytes(ln), b"\xff" * ln, bytes((i * 37 + ln) & 0xff for i in range(ln))):
            for si4 in (0, 1):
                for ca in cas:
                    case = {"ca": ca, "len": ln, "bitmap": content, "si4": si4, "pre": [ca[0]] if ca else [], "first": None}
                    try:
                        oracle(case)
                        rec.bulk(1, 1, {"len>8 enumerated": 1})
                    except Violation as v:
                        if v.sig not in seen:
                            seen.add(v.sig)
                            fails.append(Failure("long_bitmaps_enumerated", case, v.sig, v.msg))
    rec.exhaustive = True
    rec.samples.append({"enumerated": "lengths 9..255 x {zeros, ones, pattern} x si4 x 3 cell allocations"})
    return fails


SUBS = [Sub("long_bitmaps_enumerated", fn=long_bitmaps), Sub("decode_mobile_alloc", strategy=case_st(), oracle=oracle, examples={"quick": 6000, "thorough": 200000},
            shards={"quick": 1, "thorough": 16}, prepare=prepare)]
SUBS[0].replay = oracle
