# Adversarial stand-in for the `random` module attribute of a module under test: the harness owns the
# simulator's randomness the same way it owns its clock.  Every distribution function returns values from the
# extreme ends of what the real function can return (or, with mode 'real', a genuine draw), so that "the value
# stays inside its configured window" is checked at the window's edges and for the far tails of unbounded
# distributions instead of waiting for a one-in-a-million draw.
import random as _real


class AdvRandom:
    def __init__(self, seed=0):
        self._r = _real.Random(seed)
        self.calls = 0

    def seed(self, a=None, *rest):
        self._r.seed(a)

    def _mode(self):
        self.calls += 1
        return self._r.choice(("lo", "hi", "lo", "hi", "mid", "real"))

    # --- bounded integer / float draws: the ends are legal outcomes of the real functions
    def randint(self, a, b):
        if a > b:
            raise ValueError("empty range in randrange(%d, %d)" % (a, b + 1))
        m = self._mode()
        return {"lo": a, "hi": b, "mid": (a + b) // 2}.get(m, self._r.randint(a, b))

    def randrange(self, start, stop=None, step=1):
        if stop is None:
            start, stop = 0, start
        n = len(range(start, stop, step))
        if n <= 0:
            raise ValueError("empty range in randrange(%r, %r, %r)" % (start, stop, step))
        m = self._mode()
        k = {"lo": 0, "hi": n - 1, "mid": n // 2}.get(m, self._r.randrange(n))
        return start + k * step

    def uniform(self, a, b):
        m = self._mode()
        return {"lo": a, "hi": b, "mid": (a + b) / 2.0}.get(m, self._r.uniform(a, b))

    def random(self):
        m = self._mode()
        return {"lo": 0.0, "hi": 1.0 - 2 ** -53, "mid": 0.5}.get(m, self._r.random())

    def triangular(self, low=0.0, high=1.0, mode=None):
        m = self._mode()
        return {"lo": low, "hi": high}.get(m, self._r.triangular(low, high, mode))

    def choice(self, seq):
        m = self._mode()
        return {"lo": seq[0], "hi": seq[-1]}.get(m, self._r.choice(seq))

    def getrandbits(self, k):
        m = self._mode()
        return {"lo": 0, "hi": (1 << k) - 1}.get(m, self._r.getrandbits(k))

    # --- unbounded distributions: far tails are legal (if improbable) outcomes
    def gauss(self, mu=0.0, sigma=1.0):
        m = self._mode()
        return {"lo": mu - 6.0 * sigma, "hi": mu + 6.0 * sigma, "mid": mu}.get(m, self._r.gauss(mu, sigma))

    normalvariate = gauss

    def expovariate(self, lambd=1.0):
        m = self._mode()
        return {"lo": 0.0, "hi": 30.0 / lambd}.get(m, self._r.expovariate(lambd))

    def lognormvariate(self, mu, sigma):
        import math
        return math.exp(self.gauss(mu, sigma))

    def shuffle(self, x):
        self._r.shuffle(x)

    def sample(self, population, k):
        return self._r.sample(population, k)

    def __getattr__(self, name):
        return getattr(self._r, name)
