# Builds the real fake_trx.Application on FakeNet with the clock thread,
# signal handling and log-handler installation neutralised.
import contextlib
import io
import logging
import sys
from types import SimpleNamespace

from harness import tk  # noqa: F401  (sets sys.path)
from harness.core import HarnessError
from harness.fakenet import FakeNet

import udp_link
import clck_gen
import ctrl_if
import fake_trx
import app_common


class ParkedThread:
    """threading.Thread double: start() marks the generator alive but never runs the worker; the harness delivers
    ticks itself.  The double keeps track of every started worker: a worker counts as terminated only once it
    has been join()ed after the breaker was set (that is the only way the real loop can be known to have exited)."""
    started = []          # every instance that was start()ed and not yet joined

    def __init__(self, target=None, **kw):
        self.target = target
        self.daemon = False
        self._alive = False

    def start(self):
        self._alive = True
        ParkedThread.started.append(self)

    def is_alive(self):
        return self._alive

    def join(self, timeout=None):
        self._alive = False
        if self in ParkedThread.started:
            ParkedThread.started.remove(self)


class FakeEvent:
    def __init__(self):
        self.flag = False

    def set(self):
        self.flag = True

    def clear(self):
        self.flag = False

    def is_set(self):
        return self.flag

    def wait(self, timeout=None):
        return self.flag


from harness.logcap import install as log_capture  # noqa: E402


class SleepRecorder:
    def __init__(self):
        self.slept = []

    def sleep(self, s):
        # mimic the argument checks of the real time.sleep()
        if s < 0:
            raise ValueError("sleep length must be non-negative")
        if s > 9223372036.0:
            raise OverflowError("timestamp out of range for platform time_t")
        self.slept.append(s)

    def __getattr__(self, name):
        import time
        return getattr(time, name)


def check_patchable():
    for mod, attr in ((udp_link, "socket"), (clck_gen, "threading"), (clck_gen, "time"),
                      (ctrl_if, "time"), (fake_trx, "signal")):
        if not hasattr(mod, attr):
            raise HarnessError("%s no longer has a module attribute %r: the test doubles cannot be installed"
                               % (mod.__name__, attr))


class App:
    """A running fake_trx.Application on FakeNet.

    trx_defs: list of (name, addr, port, idx) for --trx
    """

    def __init__(self, trx_defs=(), bts_port=5700, bb_port=6700, bts_addr="127.0.0.1", bb_addr="127.0.0.1",
                 bind_addr="0.0.0.0"):
        check_patchable()
        self.net = FakeNet()
        ParkedThread.started = []
        self.logs = log_capture()
        self.logs.take()
        self.sleeper = SleepRecorder()
        udp_link.socket = self.net.module()
        clck_gen.threading = SimpleNamespace(Thread=ParkedThread, Event=FakeEvent)
        ctrl_if.time = self.sleeper
        fake_trx.signal = SimpleNamespace(signal=lambda *a: None, SIGINT=2)
        app_common.ApplicationBase.app_init_logging = lambda self_, argv: None
        argv = ["fake_trx", "-b", bind_addr, "-R", bts_addr, "-r", bb_addr, "-P", str(bts_port), "-p", str(bb_port)]
        for (name, addr, port, idx) in trx_defs:
            argv += ["--trx", "%s%s:%d%s" % (name + "@" if name else "", addr, port, "/%d" % idx if idx else "")]
        self.argv = argv
        old = sys.argv
        sys.argv = argv
        try:
            with contextlib.redirect_stdout(io.StringIO()):
                self.app = fake_trx.Application()
        finally:
            sys.argv = old
        self.trx = list(self.app.trx_list.trx_list)
        self.net.take()

    # ---- L1-side helpers --------------------------------------------------
    def l1_addr(self, t, kind):
        """address of the L1 peer socket of transceiver t (kind: clck/ctrl/data)"""
        off = {"clck": 100, "ctrl": 101 + 2 * t.child_idx, "data": 102 + 2 * t.child_idx}[kind]
        return (t.remote_addr, t.base_port + off)

    def ctrl(self, t, text, src=None, raw=None):
        """send one datagram to t's CTRL socket and let the transceiver handle it.
        Returns the list of datagrams (src, dst, payload) emitted while handling."""
        src = src or self.l1_addr(t, "ctrl")
        data = raw if raw is not None else text.encode() + b"\0"
        # datagrams that reached this socket earlier (e.g. a reply another transceiver sent to an address that
        # happens to be this socket) would have been consumed by the select loop by now
        for _ in range(len(t.ctrl_if.sock.rxq)):
            t.ctrl_if.handle_rx()
        self.net.take()
        self.net.inject(t.ctrl_if.sock, data, src)
        t.ctrl_if.handle_rx()
        return self.net.take()

    def cmd(self, t, text):
        """send a command, return the reply text (without NUL) or None"""
        out = self.ctrl(t, "CMD " + text)
        if len(out) != 1:
            return None
        return out[0][2].rstrip(b"\0").decode(errors="replace")

    def data(self, t, payload, src=None):
        """deliver a TRXD datagram to t's DATA socket"""
        src = src or self.l1_addr(t, "data")
        for _ in range(len(t.data_if.sock.rxq)):
            t.recv_data_msg()
        self.net.inject(t.data_if.sock, payload, src)
        return t.recv_data_msg()

    def tick(self, fn):
        self.net.take()
        self.app.clck_handler(fn)
        return self.net.take()

    def live_clock_workers(self):
        """number of clock worker threads that were started and never joined"""
        return len(ParkedThread.started)

    def close(self):
        # release sockets (UDPLink.__del__ closes them; be explicit)
        try:
            self.app.clck_gen.stop()
        except Exception:
            pass
        for t in self.trx:
            for link in (t.data_if, t.ctrl_if, getattr(t, "clck_if", None)):
                if link is not None:
                    link.sock.close()
