# Building C drivers around unmodified repository sources, from the working
# tree, on every run: clang + ASan/UBSan.  Build failures are harness errors.
import os
import re
import subprocess

from harness.core import REPO, VERIF, HarnessError

CC = "clang"
SAN = ["-fsanitize=address,undefined", "-fno-sanitize-recover=all", "-fno-omit-frame-pointer"]
CSHIM = os.path.join(VERIF, "c", "shim")
# gsm_utils.c includes "../../config.h": the include directory cfgdir/a/b must exist for that path to resolve.  git does not
# keep empty directories, so a checkout of the committed files alone lacks it (a .gitkeep is committed too; this is the belt).
os.makedirs(os.path.join(CSHIM, "fw", "cfgdir", "a", "b"), exist_ok=True)

FW_INC = ["-I", os.path.join(CSHIM, "fw"),
          "-I", os.path.join(REPO, "src/shared/libosmocore/include"),
          "-I", os.path.join(REPO, "include"),
          "-idirafter", os.path.join(REPO, "src/target/firmware/include")]

SAN_ENV = {"ASAN_OPTIONS": "detect_leaks=0:abort_on_error=0:exitcode=99:allocator_may_return_null=1",
           "UBSAN_OPTIONS": "print_stacktrace=1:halt_on_error=1:exitcode=98"}


def run(cmd, what):
    r = subprocess.run(cmd, capture_output=True, text=True)
    if r.returncode != 0:
        raise HarnessError("%s failed: %s\n%s" % (what, " ".join(cmd), (r.stderr or r.stdout)[-3000:]))
    return r.stdout


def run_bounded(cmd, env=None, timeout=3600, cwd=None):
    """subprocess.run for one-shot drivers with a bound: code under test that does not terminate shows up as returncode 124"""
    try:
        return subprocess.run(cmd, capture_output=True, text=True, env=env, timeout=timeout, cwd=cwd)
    except subprocess.TimeoutExpired as e:
        def txt(x):
            return x.decode("utf-8", "replace") if isinstance(x, bytes) else (x or "")
        return subprocess.CompletedProcess(cmd, 124, txt(e.stdout), txt(e.stderr) + "\ndriver did not terminate within %d s" % timeout)


def compile_obj(src, obj, flags, sanitize=True, opt="-O1"):
    cmd = [CC, "-g", opt, "-c", src, "-o", obj, "-w"] + (SAN if sanitize else []) + list(flags)
    run(cmd, "compile " + os.path.basename(src))
    return obj


def link(objs, out, sanitize=True, extra=()):
    cmd = [CC, "-g", "-o", out] + list(objs) + (SAN if sanitize else []) + list(extra)
    run(cmd, "link " + os.path.basename(out))
    return out


def weak_stubs(objs, out_c, defined_elsewhere=()):
    """Generate weak data definitions for every symbol the objects leave
    undefined (hardware/DSP entry points that the driver never calls)."""
    und = set()
    dfn = set(defined_elsewhere)
    for o in objs:
        for line in run(["nm", o], "nm").splitlines():
            parts = line.split()
            if len(parts) == 2 and parts[0] == "U":
                und.add(parts[1])
            elif len(parts) == 3 and parts[1] in "TDBRCGSV":
                dfn.add(parts[2])
    libc_like = re.compile(r"^(__asan|__ubsan|__sanitizer|__stack_chk|_GLOBAL_|__cxa|__gxx|__gcc)")
    known_libc = {"printf", "puts", "putchar", "memcpy", "memset", "memmove", "memcmp", "strlen", "strcmp", "strncmp",
                  "strcpy", "strncpy", "snprintf", "sprintf", "vsnprintf", "vprintf", "fprintf", "vfprintf", "abort",
                  "malloc", "free", "calloc", "realloc", "stderr", "stdout", "stdin", "fputs", "fputc", "fwrite",
                  "strchr", "strrchr", "strstr", "strtol", "strtoul", "strtoull", "strtoll", "atoi", "exit", "bcmp", "strcat", "strncat",
                  "fflush", "getchar", "read", "write", "fread", "fgets", "sscanf", "qsort", "strdup", "isprint",
                  "toupper", "tolower", "__ctype_b_loc", "__errno_location", "strerror", "time", "gettimeofday"}
    need = sorted(s for s in und - dfn if not libc_like.match(s) and s not in known_libc)
    with open(out_c, "w") as f:
        f.write("/* generated: weak stand-ins for hardware symbols never executed by the driver */\n")
        for s in need:
            f.write("long long %s[512] __attribute__((weak));\n" % s)
    return need


class Driver:
    """Persistent driver process speaking a line protocol on stdin/stdout."""

    def __init__(self, exe, args=(), max_line=4000, timeout=300):
        self.timeout = timeout
        self.max_line = max_line        # the driver's input line buffer (minus slack): longer requests are a harness limit
        self.exe = exe
        self.args = list(args)
        self.p = None
        self.restarts = 0
        self.start()

    def start(self):
        env = dict(os.environ)
        env.update(SAN_ENV)
        # binary, unbuffered pipes; lines are assembled here so that waiting for the driver can be bounded by a deadline
        self.p = subprocess.Popen([self.exe] + self.args, stdin=subprocess.PIPE, stdout=subprocess.PIPE,
                                  stderr=subprocess.PIPE, bufsize=0, env=env)
        self._buf = b""

    def _readline(self, deadline):
        """one line without the newline; None at end of file; raises TimeoutError past the deadline"""
        import select
        import time as _t
        fd = self.p.stdout.fileno()
        while b"\n" not in self._buf:
            r, _, _ = select.select([fd], [], [], max(0.0, min(5.0, deadline - _t.time())))
            if not r:
                if _t.time() >= deadline:
                    raise TimeoutError()
                continue
            chunk = os.read(fd, 1 << 16)
            if not chunk:
                return None
            self._buf += chunk
        line, self._buf = self._buf.split(b"\n", 1)
        return line.decode("ascii", "replace")

    def request(self, line):
        """send one line, read lines until 'END'; returns list of lines, or
        raises DriverCrash with the sanitizer report"""
        import time as _t
        if len(line) > self.max_line:
            raise HarnessError("request of %d characters exceeds the driver's line buffer (%d)" % (len(line), self.max_line))
        try:
            self.p.stdin.write((line + "\n").encode("ascii"))
        except (BrokenPipeError, OSError):
            return self._crashed()
        out = []
        deadline = _t.time() + self.timeout
        while True:
            try:
                l = self._readline(deadline)
            except TimeoutError:
                return self._hung(out)
            if l is None:
                return self._crashed(out)
            if l == "END":
                return out
            out.append(l)

    def _hung(self, partial=()):
        for pr in self._descendants() + [self.p.pid]:
            try:
                os.kill(pr, 9)
            except OSError:
                pass
        self.p.wait()
        self.restarts += 1
        self.start()
        raise DriverCrash("hang", "no reply from the driver within %d s (code under test does not return)" % self.timeout, list(partial))

    def _descendants(self):
        out = []
        try:
            for line in subprocess.run(["ps", "-o", "pid=", "--ppid", str(self.p.pid)], capture_output=True, text=True).stdout.split():
                out.append(int(line))
        except Exception:
            pass
        return out

    def _crashed(self, partial=()):
        try:
            err = self.p.stderr.read().decode("utf-8", "replace")
        except Exception:
            err = ""
        rc = self.p.wait()
        self.restarts += 1
        self.start()
        raise DriverCrash(rc, err, list(partial))

    def close(self):
        try:
            self.p.stdin.close()
            self.p.wait(timeout=5)
        except Exception:
            self.p.kill()


class DriverCrash(Exception):
    def __init__(self, rc, stderr, partial):
        Exception.__init__(self, "driver died rc=%s" % rc)
        self.rc = rc
        self.stderr = stderr
        self.partial = partial

    def signature(self):
        """(kind, top repository frame) of a sanitizer report / signal"""
        kind = "signal-or-abort(rc=%s)" % self.rc
        m = re.search(r"ERROR: AddressSanitizer: ([\w-]+)", self.stderr)
        if m:
            kind = "asan:" + m.group(1)
        else:
            m = re.search(r"runtime error: ([^\n]{0,80})", self.stderr)
            if m:
                kind = "ubsan:" + re.sub(r"[0-9]+", "N", m.group(1)).strip()
        frame = "?"
        for fm in re.finditer(r"#\d+ 0x[0-9a-f]+ in (\S+) (\S+?):(\d+)", self.stderr):
            fn, path = fm.group(1), fm.group(2)
            if "/c/drv_" in path or "/c/shim" in path or "compiler-rt" in path or "/verif/" in path and "/c/" in path:
                continue
            frame = "%s@%s" % (fn, os.path.basename(path))
            break
        else:
            m = re.search(r"(\S+\.[ch]):(\d+):\d+: runtime error", self.stderr)
            if m:
                frame = os.path.basename(m.group(1))
        return "%s@%s" % (kind, frame)


def slice_function(path, start_marker):
    """text of one C function, cut out of a source file by brace matching (used where the whole
    translation unit cannot be compiled in this sandbox)"""
    src = open(path, encoding="utf-8", errors="replace").read()
    i = src.find(start_marker)
    if i < 0:
        raise HarnessError("%s: %r not found" % (path, start_marker))
    j = src.index("{", i)
    depth, k = 0, j
    in_str = in_chr = in_lc = in_bc = False
    while k < len(src):
        c, n2 = src[k], src[k:k + 2]
        if in_lc:
            in_lc = c != "\n"
        elif in_bc:
            if n2 == "*/":
                in_bc = False
                k += 1
        elif in_str:
            if c == "\\":
                k += 1
            elif c == '"':
                in_str = False
        elif in_chr:
            if c == "\\":
                k += 1
            elif c == "'":
                in_chr = False
        elif n2 == "//":
            in_lc = True
        elif n2 == "/*":
            in_bc = True
        elif c == '"':
            in_str = True
        elif c == "'":
            in_chr = True
        elif c == "{":
            depth += 1
        elif c == "}":
            depth -= 1
            if depth == 0:
                return src[i:k + 1]
        k += 1
    raise HarnessError("%s: unbalanced braces after %r" % (path, start_marker))
