# Core of the verification harness: cases, violations, recorder, the generic
# Hypothesis driver with collect-then-continue bucketing, sharding, replay.
import hashlib
import json
import os
import sys
import time
import traceback
from collections import Counter

VERIF = os.path.dirname(os.path.dirname(os.path.abspath(__file__)))
REPO = os.environ.get("VERIF_REPO_ROOT", "/repo")
TOOLKIT = os.path.join(REPO, "src", "target", "trx_toolkit")
BUILD = os.path.join(VERIF, "build")


class Violation(Exception):
    """The oracle of a property rejected an observation.

    sig  : root-cause signature (stable string: oracle clause + site), used for
           bucketing and for matching known findings
    msg  : human readable description of what was observed vs expected
    """

    def __init__(self, sig, msg=""):
        Exception.__init__(self, "%s: %s" % (sig, msg))
        self.sig = sig
        self.msg = msg


class HarnessError(Exception):
    """Something in the harness itself (build, driver, doubles) failed.
    Never reported as a violation: exit status 2."""


def check(cond, sig, msg=""):
    if not cond:
        raise Violation(sig, msg() if callable(msg) else msg)


# ---------------------------------------------------------------------------
# JSON-able cases

def to_json(o):
    if isinstance(o, (bytes, bytearray, memoryview)):
        return {"__b": bytes(o).hex()}
    if isinstance(o, dict):
        return {str(k): to_json(v) for k, v in o.items()}
    if isinstance(o, (list, tuple)):
        return [to_json(x) for x in o]
    if isinstance(o, (int, str, float, bool)) or o is None:
        return o
    if isinstance(o, (set, frozenset)):
        return sorted(to_json(x) for x in o)
    return repr(o)


def from_json(o):
    if isinstance(o, dict):
        if len(o) == 1 and "__b" in o:
            return bytes.fromhex(o["__b"])
        return {k: from_json(v) for k, v in o.items()}
    if isinstance(o, list):
        return [from_json(x) for x in o]
    return o


def case_hash(case):
    s = json.dumps(to_json(case), sort_keys=True, separators=(",", ":"))
    return hashlib.blake2b(s.encode(), digest_size=8).hexdigest()


def abbreviate(o, maxlen=160):
    """Make a sample small enough to be readable in an evidence file."""
    j = to_json(o)

    def ab(x):
        if isinstance(x, dict):
            if len(x) == 1 and "__b" in x:
                h = x["__b"]
                if len(h) > 64:
                    return {"__b": h[:48] + "...(%d octets)" % (len(h) // 2)}
                return x
            return {k: ab(v) for k, v in x.items()}
        if isinstance(x, list):
            if len(x) > 16:
                return [ab(v) for v in x[:10]] + ["...(%d items)" % len(x)]
            return [ab(v) for v in x]
        if isinstance(x, str) and len(x) > maxlen:
            return x[:maxlen] + "...(%d chars)" % len(x)
        return x
    return ab(j)


# ---------------------------------------------------------------------------

class Recorder:
    """What one sub-check actually covered."""

    MAX_SAMPLES = 4

    def __init__(self, name):
        self.name = name
        self.evaluations = 0
        self.nontrivial_hashes = set()
        self.bulk_nontrivial = 0     # enumerations: counted, distinct by construction
        self.classes = Counter()
        self.samples = []
        self.excluded = Counter()    # signature -> cases skipped because bucket already known
        self.exhaustive = None
        self.notes = []
        self.inconclusive = 0

    def note(self, case, classes=(), nontrivial=True, sample=None):
        self.evaluations += 1
        for c in classes:
            self.classes[c] += 1
        if nontrivial:
            h = case_hash(case)
            if h not in self.nontrivial_hashes:
                self.nontrivial_hashes.add(h)
                if len(self.samples) < self.MAX_SAMPLES:
                    self.samples.append(abbreviate(sample if sample is not None else case))

    def bulk(self, evaluations, nontrivial, classes=None, samples=()):
        """For enumerations of distinct cases (no hashing of 10^6 cases)."""
        self.evaluations += evaluations
        self.bulk_nontrivial += nontrivial
        if classes:
            self.classes.update(classes)
        for s in samples:
            if len(self.samples) < self.MAX_SAMPLES:
                self.samples.append(abbreviate(s))

    @property
    def distinct_nontrivial(self):
        return len(self.nontrivial_hashes) + self.bulk_nontrivial

    def merge(self, other):
        self.evaluations += other.evaluations
        self.nontrivial_hashes |= other.nontrivial_hashes
        self.bulk_nontrivial += other.bulk_nontrivial
        self.classes.update(other.classes)
        self.excluded.update(other.excluded)
        self.inconclusive += other.inconclusive
        for s in other.samples:
            if len(self.samples) < self.MAX_SAMPLES:
                self.samples.append(s)
        self.notes += other.notes
        if other.exhaustive is not None:
            self.exhaustive = other.exhaustive if self.exhaustive is None else (self.exhaustive and other.exhaustive)

    def summary(self):
        d = {
            "sub_check": self.name,
            "evaluations": self.evaluations,
            "distinct_nontrivial": self.distinct_nontrivial,
            "classes": dict(sorted(self.classes.items())),
        }
        if self.excluded:
            d["excluded_by_known_bucket"] = dict(self.excluded)
        if self.exhaustive is not None:
            d["exhaustive"] = self.exhaustive
        if self.notes:
            d["notes"] = self.notes[:8]
        if self.inconclusive:
            d["inconclusive_cases"] = self.inconclusive
        return d


SHRINK_BUDGET_S = {"quick": 20.0, "thorough": 120.0}
ROUNDS = {"quick": 3, "thorough": 6}


class Failure:
    def __init__(self, sub, case, sig, msg):
        self.sub = sub
        self.case = case
        self.sig = sig
        self.msg = msg


# ---------------------------------------------------------------------------

def repo_frame_sig(exc):
    """(type, innermost frame inside the repository) of an exception, or None
    if no frame of the traceback is inside the repository."""
    tb = traceback.extract_tb(exc.__traceback__)
    for fr in reversed(tb):
        fn = os.path.abspath(fr.filename)
        if fn.startswith(os.path.abspath(REPO) + os.sep):
            return "%s@%s:%s" % (type(exc).__name__, os.path.basename(fn), fr.name)
    return None


class _CaseHang(BaseException):
    """raised by the per-case watchdog (BaseException: 'except Exception' in the code under test must not swallow it)"""


CASE_TIMEOUT_S = int(os.environ.get("VERIF_CASE_TIMEOUT", "900"))


def _watchdog(signum, frame):
    raise _CaseHang()


def guarded(oracle, case):
    """Run the oracle; classify unexpected exceptions.  A single case that does not finish within CASE_TIMEOUT_S (the slowest
    legitimate case takes seconds) is code under test that does not return: reported as a violation, not left hanging."""
    import signal
    import threading
    armed = threading.current_thread() is threading.main_thread() and hasattr(signal, "setitimer")
    old = None
    if armed:
        try:
            old = signal.signal(signal.SIGALRM, _watchdog)
            signal.setitimer(signal.ITIMER_REAL, CASE_TIMEOUT_S)
        except (ValueError, OSError):
            armed = False
    try:
        return oracle(case)
    except _CaseHang:
        raise Violation("hang:case-does-not-finish", "one generated case did not finish within %d s" % CASE_TIMEOUT_S)
    except Violation:
        raise
    except HarnessError:
        raise
    except RecursionError:
        raise
    except Exception as e:  # noqa
        sig = repo_frame_sig(e)
        if sig is None:
            raise HarnessError("oracle raised %r\n%s" % (e, traceback.format_exc()))
        raise Violation("crash:" + sig, "%r" % (e,))
    finally:
        if armed:
            signal.setitimer(signal.ITIMER_REAL, 0)
            signal.signal(signal.SIGALRM, old if old is not None else signal.SIG_DFL)


class Sub:
    """One sub-check of a property.

    kind 'hyp' : strategy + oracle(case) -> (classes, nontrivial[, sample]); driven by Hypothesis
    kind 'func': fn(ctx, rec) -> list[Failure]; enumerations / drivers that
                 manage their own generation (still deterministic in ctx.seed)
    """

    def __init__(self, name, strategy=None, oracle=None, examples=None, fn=None,
                 shards=None, prepare=None, shrink=True):
        self.name = name
        self.strategy = strategy
        self.oracle = oracle
        self.examples = examples or {"quick": 300, "thorough": 3000}
        self.fn = fn
        self.shards = shards or {"quick": 1, "thorough": 16}
        self.prepare = prepare
        self.shrink = shrink


class Ctx:
    def __init__(self, prop, tier, seed):
        self.prop = prop
        self.tier = tier
        self.seed = seed
        self.repo = REPO
        tag = os.environ.get("VERIF_BUILD_TAG")
        self.build = os.path.join(BUILD, prop + ("-" + tag if tag else ""))
        os.makedirs(self.build, exist_ok=True)


def _hyp_once(sub, n_examples, seed, excluded, tier="quick"):
    """One Hypothesis campaign.  Returns (rec, failure-or-None)."""
    import hypothesis
    from hypothesis import given, settings, HealthCheck, Phase

    rec = Recorder(sub.name)
    state = {"last": None, "t_fail": None, "gave_up": False}
    strat = sub.strategy() if callable(sub.strategy) else sub.strategy

    phases = [Phase.explicit, Phase.generate, Phase.target]
    if sub.shrink:
        phases.append(Phase.shrink)

    @hypothesis.seed(seed)
    @settings(max_examples=n_examples, database=None, deadline=None,
              derandomize=False, report_multiple_bugs=False,
              suppress_health_check=list(HealthCheck), phases=phases,
              print_blob=False)
    @given(strat)
    def run(case):
        # shrinking budget: Hypothesis has no time limit for its shrink phase (only a hard 5 minute cap); once the
        # budget is spent every further candidate "passes", which ends the shrink with the smallest failure so far
        if state["t_fail"] is not None and time.time() - state["t_fail"] > SHRINK_BUDGET_S[tier]:
            state["gave_up"] = True
            return
        try:
            res = guarded(sub.oracle, case)
        except Violation as v:
            if v.sig in excluded:
                rec.excluded[v.sig] += 1
                return
            if state["t_fail"] is None:
                state["t_fail"] = time.time()
            state["last"] = (case, v)
            raise
        if res is None:
            res = ((), True)
        classes, nontrivial = res[0], res[1]
        sample = res[2] if len(res) > 2 else None
        if state["t_fail"] is None:
            rec.note(case, classes, nontrivial, sample)

    try:
        run()
    except Violation:
        case, v = state["last"]
        return rec, Failure(sub.name, case, v.sig, v.msg)
    except HarnessError:
        raise
    except BaseException as e:  # hypothesis wrapper errors (Flaky, ...)
        if state["last"] is not None and state["gave_up"] and "Flaky" in type(e).__name__:
            case, v = state["last"]
            return rec, Failure(sub.name, case, v.sig, v.msg + " [shrink budget exhausted: case not minimal]")
        if state["last"] is not None and "Flaky" in type(e).__name__:
            # the same input gave a violation on one evaluation and not on another.  Every oracle here is a pure function of the
            # case on the unchanged tree (checked over many seeds), so this is the code under test behaving non-deterministically
            # (reads of uninitialised or out-of-bounds memory, state leaking between calls): the recorded violation is reported,
            # the input is kept unshrunk and may not reproduce on every replay
            case, v = state["last"]
            return rec, Failure(sub.name, case, v.sig, v.msg + " [not reproduced on every evaluation of this input: non-deterministic behaviour]")
        raise
    return rec, None


def _shard_worker(args):
    modname, subname, n, seed, excluded, tier = args
    import importlib
    sys.setrecursionlimit(10000)
    mod = importlib.import_module(modname)
    sub = [s for s in mod.SUBS if s.name == subname][0]
    try:
        rec, fail = _hyp_once(sub, n, seed, set(excluded), tier)
        return ("ok", rec, fail)
    except HarnessError as e:
        return ("harness", str(e), None)
    except BaseException as e:
        return ("harness", "%r\n%s" % (e, traceback.format_exc()), None)


def run_sub(ctx, mod, sub, findings):
    """Run one sub-check with collect-then-continue; returns (rec, failures)."""
    total = Recorder(sub.name)
    failures = []
    if sub.prepare:
        sub.prepare(ctx)
    if sub.fn is not None:
        # enumerations manage their own failures; whatever still escapes (a violation raised by set-up code, an exception with a
        # frame in the code under test) is a finding, not a harness error
        try:
            fs = sub.fn(ctx, total) or []
        except Violation as v:
            fs = [Failure(sub.name, {"note": "raised outside an enumerated case"}, v.sig, v.msg)]
        except HarnessError:
            raise
        except Exception as e:  # noqa
            sig = repo_frame_sig(e)
            if sig is None:
                raise HarnessError("%s raised %r\n%s" % (sub.name, e, traceback.format_exc()))
            fs = [Failure(sub.name, {"note": "raised outside an enumerated case"}, "crash:" + sig, "%r" % (e,))]
        return total, fs

    n = sub.examples[ctx.tier]
    if n <= 0:
        total.notes.append("not run in the %s tier" % ctx.tier)
        return total, []
    shards = sub.shards[ctx.tier]
    excluded = set()
    for round_no in range(ROUNDS[ctx.tier]):
        if shards <= 1:
            rec, fail = _hyp_once(sub, n, ctx.seed, excluded, ctx.tier)
            results = [(rec, fail)]
        else:
            import multiprocessing as mp
            per = max(1, n // shards)
            jobs = [(mod.__name__, sub.name, per, ctx.seed * 1000 + i, sorted(excluded), ctx.tier)
                    for i in range(shards)]
            with mp.get_context("fork").Pool(min(shards, os.cpu_count() or 1)) as pool:
                out = pool.map(_shard_worker, jobs)
            results = []
            for st, a, b in out:
                if st != "ok":
                    raise HarnessError(a)
                results.append((a, b))
        new = {}
        for rec, fail in results:
            if round_no == 0 or fail is None:
                # count coverage of the first full round (+ later clean shards are re-runs: not re-counted)
                if round_no == 0:
                    total.merge(rec)
            if round_no > 0:
                total.excluded.update(rec.excluded)
            if fail is not None and fail.sig not in new:
                new[fail.sig] = fail
        if not new:
            break
        for sig, fail in new.items():
            failures.append(fail)
            excluded.add(sig)
    return total, failures


def write_replay(prop, failure):
    d = os.path.join(os.environ.get("VERIF_REPLAY_DIR") or os.path.join(VERIF, "replays"), prop)
    os.makedirs(d, exist_ok=True)
    body = {"property": prop, "sub": failure.sub, "sig": failure.sig,
            "msg": failure.msg, "case": to_json(failure.case)}
    h = case_hash([failure.sub, failure.sig, failure.case])
    path = os.path.join(d, "%s-%s.json" % (failure.sub, h))
    with open(path, "w") as f:
        json.dump(body, f, indent=1, sort_keys=True)
    return path
