# In-memory UDP for the toolkit: replaces the `socket` module attribute of
# udp_link.  Makes "exactly one datagram, to exactly this address" (and
# "nothing was sent") observable without timeouts.
from collections import deque
from types import SimpleNamespace


class FakeSock:
    def __init__(self, net):
        self.net = net
        self.addr = None
        self.rxq = deque()
        self.closed = False

    # --- API used by udp_link.UDPLink / ctrl_if / data_if
    def setsockopt(self, *a):
        pass

    def setblocking(self, flag):
        pass

    def bind(self, addr):
        addr = (addr[0], int(addr[1]))
        if addr in self.net.bound:
            raise OSError(98, "Address already in use (FakeNet) %r" % (addr,))
        self.addr = addr
        self.net.bound[addr] = self
        self.net.bind_log.append(addr)

    def getsockname(self):
        return self.addr if self.addr is not None else ("0.0.0.0", 0)

    def sendto(self, data, dst):
        if not isinstance(data, (bytes, bytearray, memoryview)):
            raise TypeError("a bytes-like object is required, not %r" % type(data).__name__)
        data = bytes(data)
        dst = (dst[0], int(dst[1]))
        self.net.log.append((self.addr, dst, data))
        peer = self.net.lookup(dst)
        if peer is not None:
            peer.rxq.append((data, self.addr))
        return len(data)

    def recvfrom(self, n):
        if not self.rxq:
            raise BlockingIOError(11, "Resource temporarily unavailable (FakeNet)")
        data, src = self.rxq.popleft()
        return data[:n], src          # a datagram socket truncates to the buffer size

    def close(self):
        if not self.closed:
            self.closed = True
            if self.addr is not None and self.net.bound.get(self.addr) is self:
                del self.net.bound[self.addr]

    def fileno(self):
        return -1


class FakeNet:
    AF_INET, SOCK_DGRAM, SOL_SOCKET, SO_REUSEADDR = 2, 2, 1, 2

    def __init__(self):
        self.bound = {}
        self.bind_log = []
        self.log = []     # (src_addr, dst_addr, payload) of every sendto()

    def module(self):
        return SimpleNamespace(socket=lambda fam=None, typ=None: FakeSock(self),
                               AF_INET=self.AF_INET, SOCK_DGRAM=self.SOCK_DGRAM,
                               SOL_SOCKET=self.SOL_SOCKET, SO_REUSEADDR=self.SO_REUSEADDR,
                               error=OSError)

    def lookup(self, dst):
        s = self.bound.get(dst)
        if s is None:
            s = self.bound.get(("0.0.0.0", dst[1]))
        return s

    def inject(self, sock, data, src):
        """put a datagram into a bound socket's receive queue, as if sent from src"""
        sock.rxq.append((bytes(data), src))

    def take(self):
        """return and clear the send log"""
        out, self.log = self.log, []
        return out
