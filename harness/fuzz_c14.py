#!/opt/veriftools/pyvenv/bin/python
# atheris campaign for one C14 target:  python3-vt harness/fuzz_c14.py <mode> <corpus_dir> [libFuzzer flags]
import os
import sys

VERIF = os.path.dirname(os.path.dirname(os.path.abspath(__file__)))
sys.path.insert(0, VERIF)
sys.dont_write_bytecode = True
import atheris  # noqa: E402

mode = sys.argv[1]
argv = [sys.argv[0]] + sys.argv[2:]
from harness import logcap  # noqa: E402
logcap.install()
with atheris.instrument_imports(include=["data_msg", "data_if", "data_dump", "ctrl_if", "ctrl_if_trx", "fake_trx", "transceiver",
                                         "burst_fwd", "gsm_shared", "udp_link", "fake_pm", "trx_list", "clck_gen"]):
    from checks import c14_targets  # noqa: E402
target = c14_targets.TARGETS[mode]


def one(data):
    target(data)


atheris.Setup(argv, one)
atheris.Fuzz()
