# Interleaving explorer: runs two operations in two real threads, single-stepped
# by a sys.settrace line (or opcode) tracer restricted to the toolkit's source
# files, so that exactly one thread is runnable at any time and the *schedule*
# (which thread moves at each step) is the generated input.  The transmit-queue
# mutex is replaced by a cooperative lock with the same interface so that
# blocking is visible to the scheduler.
import os
import sys
import threading

from harness.core import HarnessError, TOOLKIT

TRACED_PREFIX = os.path.abspath(TOOLKIT) + os.sep
# Files whose code touches state shared between the socket thread and the clock thread.  The message
# codec (data_msg.py, gsm_shared.py) only works on objects owned by the calling thread, so a pre-emption
# inside it is equivalent to one at the calling line and is not enumerated separately.
TRACED_FILES = {"transceiver.py", "fake_trx.py", "burst_fwd.py", "data_if.py", "ctrl_if.py", "ctrl_if_trx.py",
                "clck_gen.py", "udp_link.py", "trx_list.py", "fake_pm.py"}


class Deadlock(Exception):
    pass


class CoopLock:
    """threading.Lock look-alike whose contention is handled by the scheduler"""

    def __init__(self, sched):
        self.sched = sched
        self.owner = None
        self.acquisitions = 0
        self.contended = 0

    def acquire(self, blocking=True, timeout=-1):
        me = self.sched.current_worker()
        if me is None:           # called outside an explored run (set-up / flush): uncontended
            self.owner = "main"
            return True
        while self.owner is not None and self.owner is not me:
            self.contended += 1
            me.blocked_on = self
            me.yield_to_scheduler()
        me.blocked_on = None
        self.owner = me
        self.acquisitions += 1
        return True

    def release(self):
        self.owner = None

    def locked(self):
        return self.owner is not None

    def __enter__(self):
        self.acquire()
        return self

    def __exit__(self, *a):
        self.release()
        return False


class Worker:
    def __init__(self, sched, name, fn, opcodes):
        self.sched = sched
        self.name = name
        self.fn = fn
        self.opcodes = opcodes
        self.go = threading.Semaphore(0)
        self.finished = False
        self.exc = None
        self.blocked_on = None
        self.steps = 0
        self.trace = []
        self.thread = threading.Thread(target=self._run, name=name, daemon=True)

    def _tracer(self, frame, event, arg):
        fn = frame.f_code.co_filename
        if not fn.startswith(TRACED_PREFIX) or os.path.basename(fn) not in TRACED_FILES:
            return None
        if self.opcodes:
            frame.f_trace_opcodes = True
        return self._local

    def _local(self, frame, event, arg):
        if event == ("opcode" if self.opcodes else "line"):
            self.steps += 1
            if self.sched.record:
                self.trace.append("%s:%d" % (os.path.basename(frame.f_code.co_filename), frame.f_lineno))
            self.yield_to_scheduler()
        return self._local

    def yield_to_scheduler(self):
        self.sched.done.release()
        self.go.acquire()

    def _run(self):
        self.go.acquire()
        sys.settrace(self._tracer)
        try:
            self.fn()
        except BaseException as e:   # noqa
            self.exc = e
        finally:
            sys.settrace(None)
            self.finished = True
            self.sched.done.release()


class Scheduler:
    """run_schedule(ops, plan): ops = {'A': callable, 'B': callable};
    plan = list of (worker name, number of steps or None for 'until it finishes or blocks')"""

    def __init__(self, opcodes=False, record=False):
        self.opcodes = opcodes
        self.record = record
        self.done = threading.Semaphore(0)
        self.workers = {}
        self._by_thread = {}

    def current_worker(self):
        return self._by_thread.get(threading.get_ident())

    def new_lock(self):
        return CoopLock(self)

    def start(self, ops):
        self.workers = {}
        self._by_thread = {}
        for name, fn in ops.items():
            w = Worker(self, name, fn, self.opcodes)
            self.workers[name] = w
            w.thread.start()
            self._by_thread[w.thread.ident] = w

    def step(self, w):
        """let worker w execute up to its next yield point"""
        w.go.release()
        if not self.done.acquire(timeout=30):
            raise HarnessError("explorer: worker %s did not yield within 30 s (untraced blocking call?)" % w.name)

    def run(self, ops, plan):
        """Execute the plan, then run whatever is left to completion (A before B).
        Returns dict(name -> steps executed).  Raises Deadlock."""
        self.start(ops)
        order = list(plan) + [(n, None) for n in sorted(self.workers)]
        switches = 0
        last = None
        for name, count in order:
            w = self.workers[name]
            n = 0
            while not w.finished and (count is None or n < count):
                if w.blocked_on is not None and w.blocked_on.owner is not None and w.blocked_on.owner is not w:
                    # blocked: somebody else must move
                    others = [o for o in self.workers.values() if o is not w and not o.finished and
                              not (o.blocked_on is not None and o.blocked_on.owner is not None)]
                    if not others:
                        self._abandon()
                        raise Deadlock("all unfinished threads are blocked")
                    o = others[0]
                    self.step(o)
                    continue
                if last is not w:
                    switches += 1
                    last = w
                self.step(w)
                n += 1
        for w in self.workers.values():
            w.thread.join(timeout=10)
        return {n: w.steps for n, w in self.workers.items()}

    def _abandon(self):
        # leave blocked daemon threads parked for ever; they hold no real locks
        pass
