# Root-logger capture: the toolkit logs through the root logger; records of
# level WARNING and above are kept (bounded) so that oracles can look for
# e.g. 'Stale TRXD message'; nothing is printed.
import logging
from collections import deque


class LogCapture(logging.Handler):
    def __init__(self):
        logging.Handler.__init__(self, level=logging.WARNING)
        self.records = deque(maxlen=20000)

    def emit(self, record):
        if not record.args:
            # already formatted by the caller: no user code runs under the handler lock
            self.records.append((record.levelname, str(record.msg)))
            return
        try:
            self.records.append((record.levelname, record.getMessage()))
        except Exception:
            self.records.append((record.levelname, str(record.msg)))

    def take(self):
        out = list(self.records)
        self.records.clear()
        return out


_cap = None


def install():
    global _cap
    if _cap is None:
        _cap = LogCapture()
        root = logging.getLogger()
        root.handlers[:] = [_cap]
        root.setLevel(logging.WARNING)
        logging.raiseExceptions = False
    return _cap
