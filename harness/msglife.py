# One TRXD message object living through a series of in-place changes, as the simulator treats its messages (the same RxMsg
# is patched - timeslot, RSSI, ToA, NOPE flag, burst - and encoded once per destination).  Shared by C01 (round trip of the
# current content) and C04 (layout of the current content).  A case is {"m": message dict, "ops": [...]}, JSON-able.
from array import array

from hypothesis import strategies as st

from harness import strategies as S
from refs.ref_trxd import MODS


def start(tk, case):
    """-> (toolkit object, model dict) for the first state of the case"""
    m = dict(case["m"])
    bkey = "bits" if m["cls"] == "tx" else "soft"
    if m.get(bkey) is not None:
        m[bkey] = list(m[bkey])
    return tk.build_msg(case["m"]), m


def apply_op(tk, msg, m, op):
    """apply one change to the toolkit object and to the model alike; returns 'burst', 'field', 'nope' or None (not applicable)"""
    kind = op[0]
    bkey = "bits" if m["cls"] == "tx" else "soft"
    val = (lambda x: x & 1) if m["cls"] == "tx" else (lambda x: (x % 255) - 127)

    def mk(vals):
        return bytearray(vals) if m["cls"] == "tx" else array("b", vals)
    if kind == "set":
        f, v = op[1], op[2]
        if f not in m or (f in ("tsc", "tsc_set") and m.get("nope")):
            return None
        if f == "tsc_set" and m.get("mod") != "GMSK":
            v = v % 2
        m[f] = v
        setattr(msg, f, v)
        return "field"
    if kind == "nope":
        # burst <-> NOPE indication on the same object, nothing else touched (v1 Rx only)
        if m["cls"] != "rx" or m["ver"] < 1:
            return None
        if m.get("nope"):
            mod = op[1]
            m.update(nope=False, mod=mod, tsc_set=op[2] % (4 if mod == "GMSK" else 2), tsc=op[3],
                     soft=[val(op[4] + 3 * j) for j in range(MODS[mod][1])])
            msg.nope_ind = False
            msg.mod_type = tk.modulation(mod)
            msg.tsc_set, msg.tsc = m["tsc_set"], m["tsc"]
            msg.burst = mk(m["soft"])
        else:
            m.update(nope=True, soft=None)
            msg.nope_ind = True
            msg.burst = None             # (a NOPE indication with a burst is not a valid message)
        return "nope"
    if kind in ("edit", "slice", "new"):
        b = m.get(bkey)
        if b is None:
            return None
        n = len(b)
        if kind == "edit":
            for (i, x) in op[1]:
                b[i % n] = val(x)
                msg.burst[i % n] = val(x)
        elif kind == "slice":
            i = op[1] % n
            vals = [val(x) for x in op[2]][:n - i]
            b[i:i + len(vals)] = vals
            msg.burst[i:i + len(vals)] = mk(vals)
        else:
            src = (op[1] * (n // max(1, len(op[1])) + 1))[:n] if op[1] else [0] * n
            vals = [val(x + j) for j, x in enumerate(src)]
            m[bkey] = vals
            msg.burst = mk(vals)
        return "burst"
    return None


_setop = st.one_of(
    st.tuples(st.just("set"), st.just("fn"), S.fn()), st.tuples(st.just("set"), st.just("tn"), st.integers(0, 7)),
    st.tuples(st.just("set"), st.just("pwr"), st.integers(0, 255)), st.tuples(st.just("set"), st.just("rssi"), st.integers(-120, -47)),
    st.tuples(st.just("set"), st.just("toa256"), S.biased(-32768, 32767)), st.tuples(st.just("set"), st.just("ci"), S.biased(-1280, 1280)),
    st.tuples(st.just("set"), st.just("tsc"), st.integers(0, 7)), st.tuples(st.just("set"), st.just("tsc_set"), st.integers(0, 3)))
_burstop = st.one_of(
    st.tuples(st.just("edit"), st.lists(st.tuples(st.integers(0, 1000), st.integers(0, 255)), min_size=1, max_size=4)),
    st.tuples(st.just("slice"), st.integers(0, 1000), st.lists(st.integers(0, 255), min_size=1, max_size=12)),
    st.tuples(st.just("new"), st.lists(st.integers(0, 255), max_size=6)))
_nopeop = st.tuples(st.just("nope"), st.sampled_from(sorted(MODS)), st.integers(0, 3), st.integers(0, 7), st.integers(0, 255), st.booleans())
_enc = st.tuples(st.just("encode"), st.booleans())
_anyop = st.one_of(_setop, _burstop, _burstop, _nopeop, _enc, _enc).map(list)
_chg = st.one_of(_setop, _burstop, _burstop, _burstop, _nopeop).map(list)

# shape: ... encode, >=1 change, encode ... (most cases have a change between two encodings of the same object)
life_case = st.fixed_dictionaries({
    "m": st.one_of(S.any_msg(), S.rx_msg(vers=(1,))),
    "ops": st.tuples(st.lists(_anyop, max_size=3), _enc.map(list), st.lists(_chg, min_size=1, max_size=4), _enc.map(list),
                     st.lists(_anyop, max_size=5)).map(lambda t: t[0] + [t[1]] + t[2] + [t[3]] + t[4])})
