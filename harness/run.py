#!/venv/bin/python
# CLI: vcheck <ID> [--tier quick|thorough] [--seed N] [--replay FILE] [--sub NAME]
import argparse
import glob
import importlib
import json
import os
import sys
import time
import traceback

sys.dont_write_bytecode = True
VERIF = os.path.dirname(os.path.dirname(os.path.abspath(__file__)))
sys.path.insert(0, VERIF)

from harness import core  # noqa: E402
from harness.core import HarnessError, Violation, Failure  # noqa: E402


def load_findings():
    p = os.path.join(VERIF, "known_findings.json")
    if not os.path.exists(p):
        return []
    with open(p) as f:
        return json.load(f).get("findings", [])


def subset_match(pattern, obj):
    if isinstance(pattern, dict):
        return isinstance(obj, dict) and all(k in obj and subset_match(v, obj[k]) for k, v in pattern.items())
    return pattern == obj


def match_known(findings, prop, failure):
    for e in findings:
        if e.get("status") != "known" or e.get("property") != prop:
            continue
        if e.get("sig") != failure.sig:
            continue
        cm = e.get("case_contains")
        if cm is not None and not subset_match(cm, core.to_json(failure.case)):
            continue
        return e
    return None


def replay_one(mod, body):
    sub = [s for s in mod.SUBS if s.name == body["sub"]]
    if not sub:
        raise HarnessError("no sub-check %r" % body["sub"])
    sub = sub[0]
    case = core.from_json(body["case"])
    rp = getattr(sub, "replay", None)
    oracle = rp or sub.oracle
    if oracle is None:
        raise HarnessError("sub-check %r cannot replay" % sub.name)
    try:
        core.guarded(oracle, case)
    except Violation as v:
        return Failure(sub.name, case, v.sig, v.msg)
    return None


def main():
    ap = argparse.ArgumentParser()
    ap.add_argument("prop")
    ap.add_argument("--tier", default=os.environ.get("VERIF_TIER") or "quick", choices=["quick", "thorough"])
    ap.add_argument("--seed", type=int, default=None)
    ap.add_argument("--replay", default=None)
    ap.add_argument("--sub", default=None, help="run only this sub-check (debugging; evidence not written)")
    ap.add_argument("--no-evidence", action="store_true")
    a = ap.parse_args()
    prop = a.prop.upper()
    seed = a.seed
    if seed is None:
        try:
            seed = int(os.environ.get("VERIF_SEED", "1") or "1")
        except ValueError:
            seed = 1
    sys.setrecursionlimit(10000)
    from harness import logcap
    logcap.install()
    t0 = time.time()
    try:
        mod = importlib.import_module("checks.%s" % prop.lower())
        ctx = core.Ctx(prop, a.tier, seed)
        if hasattr(mod, "setup"):
            mod.setup(ctx)
        findings = load_findings()

        if a.replay:
            with open(a.replay) as f:
                body = json.load(f)
            fail = replay_one(mod, body)
            if fail is None:
                print("replay %s: property held" % a.replay)
                return 0
            k = match_known(findings, prop, fail)
            if k:
                print("KNOWN-FINDING: property=%s %s" % (prop, k.get("what", fail.sig)))
                return 0
            print("replay %s: %s -- %s" % (a.replay, fail.sig, fail.msg))
            print("VIOLATION property=%s replay=%s" % (prop, os.path.abspath(a.replay)))
            return 1

        all_fail = []
        recs = []
        # regression corpus first
        corpus = sorted(glob.glob(os.path.join(VERIF, "corpus", prop, "*.json")))
        corpus_rec = core.Recorder("corpus_replay")
        for p in corpus:
            with open(p) as f:
                body = json.load(f)
            if a.sub and body["sub"] != a.sub:
                continue
            fail = replay_one(mod, body)
            corpus_rec.evaluations += 1
            corpus_rec.classes["corpus:" + body["sub"]] += 1
            if fail is not None:
                fail.corpus_path = p
                all_fail.append(fail)
        for sub in mod.SUBS:
            if a.sub and sub.name != a.sub:
                continue
            ts = time.time()
            rec, fails = core.run_sub(ctx, mod, sub, findings)
            rec.wall = time.time() - ts
            if rec.evaluations == 0 and rec.notes and not fails:
                continue          # sub-check reserved for the other tier
            recs.append(rec)
            all_fail += fails

        # classify failures
        violations = []
        known_lines = []
        seen = set()
        for fl in all_fail:
            k = match_known(findings, prop, fl)
            if k:
                line = "KNOWN-FINDING: property=%s %s" % (prop, k.get("what", fl.sig))
                if line not in seen:
                    seen.add(line)
                    known_lines.append(line)
                continue
            path = getattr(fl, "corpus_path", None) or core.write_replay(prop, fl)
            violations.append((fl, path))

        wall = time.time() - t0
        if not a.sub and not a.no_evidence:
            write_evidence(mod, ctx, recs, corpus_rec, violations, known_lines, wall)
        for rec in recs:
            print("[%s] %-28s evals=%-8d nontrivial=%-8d %.1fs" % (prop, rec.name, rec.evaluations,
                                                                 rec.distinct_nontrivial, getattr(rec, "wall", 0)))
        for line in known_lines:
            print(line)
        if violations:
            for fl, path in violations:
                print("  %s / %s: %s" % (fl.sub, fl.sig, (fl.msg or "")[:600]))
                print("VIOLATION property=%s replay=%s" % (prop, path))
            return 1
        print("[%s] OK tier=%s seed=%d wall=%.1fs" % (prop, a.tier, seed, wall))
        return 0
    except HarnessError as e:
        print("HARNESS ERROR (%s): %s" % (prop, e), file=sys.stderr)
        return 2
    except Exception:
        print("HARNESS ERROR (%s): %s" % (prop, traceback.format_exc()), file=sys.stderr)
        return 2


def write_evidence(mod, ctx, recs, corpus_rec, violations, known_lines, wall):
    ev = sum(r.evaluations for r in recs) + corpus_rec.evaluations
    dn = sum(r.distinct_nontrivial for r in recs)
    samples = []
    for r in recs:
        for s in r.samples[:2]:
            samples.append({"sub_check": r.name, "case": s})
    exhaustive = [r.name for r in recs if r.exhaustive]
    cov = {
        "evaluations": ev,
        "distinct_nontrivial": dn,
        "rule": mod.RULE,
        "samples": samples[:12],
        "sub_checks": [dict(r.summary(), wall_s=round(getattr(r, "wall", 0), 2)) for r in recs],
        "corpus_replayed": corpus_rec.evaluations,
        "known_findings_reported": known_lines,
        "engines": engines(),
    }
    if exhaustive:
        cov["exhaustive_sub_checks"] = exhaustive
    if recs and all(r.exhaustive for r in recs):
        cov["exhaustive"] = True
    body = {
        "property_id": ctx.prop,
        "tier": ctx.tier,
        "seed": ctx.seed,
        "level": getattr(mod, "LEVEL", "exploration"),
        "coverage": cov,
        "assumptions": getattr(mod, "ASSUMPTIONS", []),
        "wall_s": round(wall, 2),
        "violations": len(violations),
    }
    d = os.path.join(VERIF, "evidence")
    os.makedirs(d, exist_ok=True)
    tmp = os.path.join(d, ".%s.json.tmp" % ctx.prop)
    with open(tmp, "w") as f:
        json.dump(body, f, indent=1, sort_keys=True)
    os.replace(tmp, os.path.join(d, "%s.json" % ctx.prop))


def engines():
    out = {"python": sys.version.split()[0]}
    try:
        import hypothesis
        out["hypothesis"] = hypothesis.__version__
    except Exception:
        pass
    return out


if __name__ == "__main__":
    sys.exit(main())
