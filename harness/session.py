# Drives the real fake_trx.Application (on FakeNet) and the reference model in
# lock-step and compares every observable.  Which clauses are asserted is
# chosen by the property that uses the session; the model always tracks
# everything.
from harness.appfactory import App
from harness.core import Violation, HarnessError
from refs import ref_trxd
from refs.trx_model import Model, NOISE

CLAUSES = {"reply", "routing", "metadata", "drop", "queue", "power", "clock", "ports", "settings"}


class Session:
    def __init__(self, cfg, clauses, pid):
        """cfg: dict(trx_defs=[(name, addr, port, idx)], bts_port, bb_port, bts_addr, bb_addr, bind_addr)"""
        self.cfg = dict(cfg)
        self.cfg["trx_defs"] = [tuple(d) for d in cfg.get("trx_defs", [])]
        self.app = App(**self.cfg)
        self.model = Model(**self.cfg)
        self.clauses = set(clauses)
        self.pid = pid.lower()
        self.n = len(self.model.trx)
        if len(self.app.trx) != self.n:
            raise Violation("%s:startup:transceiver-count" % self.pid, "app has %d transceivers, configuration defines %d" % (
                len(self.app.trx), self.n))
        if self.on("ports"):
            exp = set()
            for t in self.model.trx:
                exp.add(t.sock("ctrl"))
                exp.add(t.sock("data"))
                if t.has_clck:
                    exp.add(t.sock("clck"))
            got = set(self.app.net.bound)
            if got != exp:
                raise Violation(self.sig("ports", "bound-sockets"), "bound %s, documented port plan %s" % (
                    sorted(got - exp) or "-", sorted(exp - got) or "-"))
        # spy on the forwarder: direct observation of "put on the air"
        self.air = []
        fwd = self.app.app.burst_fwd
        if not hasattr(fwd, "forward_msg"):
            raise HarnessError("BurstForwarder.forward_msg is gone: cannot observe transmissions")
        real = fwd.forward_msg

        def spy(src_trx, msg, *a, **kw):
            self.air.append((self.app.trx.index(src_trx), msg.fn, msg.tn,
                             None if msg.burst is None else bytes(msg.burst)))
            return real(src_trx, msg, *a, **kw)
        fwd.forward_msg = spy
        self.fwd_log = []
        self.stats = {"bursts": 0, "delivered": 0, "nope": 0, "silent": 0, "stale": 0, "discarded": 0, "emitted": 0,
                      "cmds": 0, "unspecified": 0, "either": 0, "invalid_silent": 0}

    def sig(self, clause, what):
        return "%s:%s:%s" % (self.pid, clause, what)

    def on(self, clause):
        return clause in self.clauses

    def close(self):
        self.app.close()

    # ------------------------------------------------------------------ TRXC
    def cmd(self, i, verb, args, src=None, check_state=True, raw=None):
        t_app = self.app.trx[i]
        text = "CMD " + " ".join([verb] + list(args))
        out = self.app.ctrl(t_app, text, src=src, raw=raw)
        status, results, strict = self.model.command(i, verb, list(args))
        self.stats["cmds"] += 1
        mt = self.model.trx[i]
        want_src = src or mt.peer("ctrl")
        if self.on("reply"):
            if len(out) != 1:
                raise Violation(self.sig("reply", "count:%s" % verb), "%d datagrams in response to %r" % (len(out), text))
            s_addr, d_addr, payload = out[0]
            if d_addr != want_src:
                raise Violation(self.sig("reply", "destination"), "reply to %r went to %r, sender was %r" % (text, d_addr, want_src))
            if s_addr != mt.sock("ctrl"):
                raise Violation(self.sig("reply", "source-socket"), "reply sent from %r, control socket is %r" % (s_addr, mt.sock("ctrl")))
            if not payload.endswith(b"\0") or b"\0" in payload[:-1]:
                raise Violation(self.sig("reply", "nul-termination"), "reply %r" % payload)
            try:
                rsp = payload[:-1].decode("ascii")
            except UnicodeDecodeError:
                raise Violation(self.sig("reply", "not-text"), "reply %r" % payload)
            head = "RSP " + verb + " "
            if not rsp.startswith(head):
                raise Violation(self.sig("reply", "prefix:%s" % verb), "reply %r to %r" % (rsp, text))
            toks = rsp[len(head):].split(" ")
            st = toks[0]
            rest = toks[1:]
            if rest[:len(args)] != list(args):
                raise Violation(self.sig("reply", "arguments-not-echoed:%s" % verb), "reply %r to %r" % (rsp, text))
            extra = rest[len(args):]
            try:
                st_i = int(st)
            except ValueError:
                raise Violation(self.sig("reply", "status-not-integer:%s" % verb), "reply %r" % rsp)
            if strict:
                if st_i != status:
                    raise Violation(self.sig("reply", "status:%s" % verb), "%r answered %r, expected status %d" % (text, rsp, status))
                if len(extra) != len(results):
                    raise Violation(self.sig("reply", "results:%s" % verb), "%r answered %r, expected %d result(s)" % (text, rsp, len(results)))
                for g, e in zip(extra, results):
                    if isinstance(e, tuple) and e[0] == "range":
                        try:
                            gv = int(g)
                        except ValueError:
                            raise Violation(self.sig("reply", "results:%s" % verb), "result %r not an integer" % g)
                        if not (e[1][0] <= gv <= e[1][1]):
                            raise Violation(self.sig("reply", "results:%s" % verb), "%r answered %r, expected a value in %r" % (text, rsp, e[1]))
                    elif g != e:
                        raise Violation(self.sig("reply", "results:%s" % verb), "%r answered %r, expected result %r" % (text, rsp, e))
            # FAKE_TRXC_DELAY: the reply is held back by the configured delay (virtualised sleep)
            slept = self.app.sleeper.slept
            exp_sleep = [mt.delay_ms / 1000.0] if mt.delay_ms > 0 else []
            if strict and [round(x, 6) for x in slept] != [round(x, 6) for x in exp_sleep]:
                raise Violation(self.sig("reply", "trxc-delay"), "reply delayed by %r s, configured delay %d ms" % (slept, mt.delay_ms))
        self.app.sleeper.slept = []
        if check_state and self.on("power"):
            self.check_power()
        if check_state and self.on("settings") and strict:
            self.check_settings(i)
        return out

    def check_settings(self, i):
        a, m = self.app.trx[i], self.model.trx[i]
        try:
            got = {"ver": a.data_if._hdr_ver, "ta": a.ta, "att": a.tx_att_base, "muted": bool(a.rf_muted),
                   "rx": a._rx_freq, "tx": a._tx_freq, "toa": (a.toa256_base, a.toa256_rand_threshold),
                   "ci": (a.ci_base, a.ci_rand_threshold), "fake_rssi": bool(a.fake_rssi_enabled),
                   "drop": (a.burst_drop_amount, a.burst_drop_period)}
        except AttributeError as e:
            raise HarnessError("state named in the property anchors is gone: %r" % (e,))
        exp = {"ver": m.ver, "ta": m.ta, "att": m.att, "muted": m.muted, "rx": m.rx, "tx": m.tx,
               "toa": (m.toa_base, m.toa_thr), "ci": (m.ci_base, m.ci_thr), "fake_rssi": m.fake_rssi}
        for k, v in exp.items():
            if got[k] != v:
                raise Violation(self.sig("settings", k), "transceiver %d: %s is %r after the command, documented effect gives %r" % (i, k, got[k], v))
        if m.fake_rssi and (a.rssi_base, a.rssi_rand_threshold) != (m.rssi_base, m.rssi_thr):
            raise Violation(self.sig("settings", "rssi"), "fake RSSI window (%r, %r), expected (%r, %r)" % (
                a.rssi_base, a.rssi_rand_threshold, m.rssi_base, m.rssi_thr))
        if got["drop"][0] not in m.drop or got["drop"][1] != m.drop_period:
            raise Violation(self.sig("settings", "drop"), "drop budget/period %r, expected %r/%r" % (got["drop"], sorted(m.drop), m.drop_period))
        if (a.fh is not None) and m.fh is not None:
            if (a.fh.hsn, a.fh.maio, list(a.fh.ma)) != (m.fh[0], m.fh[1], list(m.fh[2])):
                raise Violation(self.sig("settings", "hopping"), "hopping parameters %r, expected %r" % ((a.fh.hsn, a.fh.maio, len(a.fh.ma)), (m.fh[0], m.fh[1], len(m.fh[2]))))

    def raw_ctrl(self, i, data, src=None):
        """a datagram without the CMD prefix: nothing may be sent"""
        out = self.app.ctrl(self.app.trx[i], "", src=src, raw=data)
        if self.on("reply") and out:
            raise Violation(self.sig("reply", "non-command-answered"), "%r produced %r" % (data, out))
        return out

    # ------------------------------------------------------------ power/clock
    def check_power(self):
        for i, (a, m) in enumerate(zip(self.app.trx, self.model.trx)):
            if bool(a.running) != m.running:
                raise Violation(self.sig("power", "running-state"), "transceiver %d (%s) running=%r, model %r" % (i, m.name, a.running, m.running))
            if (a.fh is not None) != (m.fh is not None):
                raise Violation(self.sig("power", "hopping-state"), "transceiver %d (%s) hopping %s, model %s" % (
                    i, m.name, "on" if a.fh is not None else "off", "on" if m.fh is not None else "off"))
        gen = self.app.app.clck_gen
        if bool(gen.running) != self.model.clock_running:
            raise Violation(self.sig("clock", "generator-state"), "clock generator running=%r, expected %r" % (gen.running, self.model.clock_running))
        live = self.app.live_clock_workers()
        if live != (1 if self.model.clock_running else 0):
            raise Violation(self.sig("clock", "worker-threads"), "%d clock worker thread(s) started and not joined, generator should %s" % (
                live, "run" if self.model.clock_running else "be stopped"))

    def clock_ind(self, k):
        """let the generator emit the tick for frame k * ind_period (an indication frame)"""
        gen = self.app.app.clck_gen
        if not self.model.clock_running:
            return None
        fn = (k * gen.ind_period) % ref_trxd.HYPERFRAME
        gen.clck_src = fn
        self.app.net.take()
        self.air = []
        self.app.logs.take()
        gen.send_clck_ind()
        out = self.app.net.take()
        inds = [(s, d, p) for (s, d, p) in out if p.startswith(b"IND")]
        others = [x for x in out if not x[2].startswith(b"IND")]
        if self.on("clock"):
            exp = sorted((t.sock("clck"), t.peer("clck")) for t in self.model.clock_links)
            got = sorted((s, d) for (s, d, p) in inds)
            if got != exp:
                raise Violation(self.sig("clock", "indication-destinations"), "IND CLOCK went %r, expected %r" % (got, exp))
            for s, d, p in inds:
                if p != b"IND CLOCK %d\0" % fn:
                    raise Violation(self.sig("clock", "indication-payload"), "payload %r for frame %d" % (p, fn))
        self._after_tick(fn, others)
        return fn

    # ------------------------------------------------------------- data plane
    def arrive(self, i, burst, src=None):
        """burst: dict(ver, fn, tn, pwr, bits) -> datagram into transceiver i's DATA socket"""
        data = ref_trxd.encode(dict(burst, cls="tx"), legacy=burst.get("legacy", False))
        self.app.net.take()
        r = self.app.data(self.app.trx[i], data, src=src)
        out = self.app.net.take()
        acc = self.model.arrive(i, burst)
        if self.on("queue"):
            if out:
                raise Violation(self.sig("queue", "arrival-emits"), "datagrams %r emitted when a burst merely arrived" % (out,))
            if bool(r) != acc:
                raise Violation(self.sig("queue", "acceptance"), "burst ver=%d at transceiver %d (ver %d, running %r): accepted=%r, expected %r" % (
                    burst["ver"], i, self.model.trx[i].ver, self.model.trx[i].running, bool(r), acc))
        self.stats["bursts"] += 1
        return acc

    def tick(self, fn):
        self.app.net.take()
        self.air = []
        self.app.logs.take()
        self.app.app.clck_handler(fn)
        out = self.app.net.take()
        self._after_tick(fn, out)

    def _after_tick(self, fn, out):
        emitted, stale = self.model.tick(fn)
        logs = self.app.logs.take()
        n_stale = sum(1 for lv, m in logs if "Stale TRXD message" in m)
        self.stats["stale"] += len(stale)
        self.stats["emitted"] += len(emitted)
        if self.on("queue"):
            got = sorted((si, f, tn, b) for (si, f, tn, b) in self.air)
            exp = sorted((si, b["fn"], b["tn"], bytes(b["bits"])) for si, b in emitted)
            if got != exp:
                early = [g for g in got if g[1] != fn]
                what = "wrong-frame" if early else ("lost-or-extra" if len(got) != len(exp) else "content")
                raise Violation(self.sig("queue", "on-air:" + what), "tick %d: on air %s, expected %s" % (
                    fn, [(g[0], g[1], g[2]) for g in got], [(e[0], e[1], e[2]) for e in exp]))
            if n_stale != len(stale):
                raise Violation(self.sig("queue", "stale-report"), "tick %d: %d stale reports, expected %d (%s)" % (
                    fn, n_stale, len(stale), [(si, b["fn"]) for si, b in stale]))
        # per-recipient observations
        by_dst = {}
        for (s, d, p) in out:
            by_dst.setdefault(d, []).append((s, p))
        expected_total = {}
        for si, b in emitted:
            exp = self.model.forward(si, b)
            self.fwd_log.append({
                "recipients": sum(1 for e in exp.values() if e.kind not in ("nothing", "unspecified")),
                "running_nonrecipients": sum(1 for ri, e in exp.items() if e.kind == "nothing" and ri != si and self.model.trx[ri].running),
                "hopping": any(t.fh is not None for t in self.model.trx if t.running),
                "hop_match": sum(1 for ri, e in exp.items() if e.kind not in ("nothing", "unspecified") and (
                    (self.model.trx[ri].fh is not None and len(set(self.model.trx[ri].fh[2])) > 1) or
                    (self.model.trx[si].fh is not None and len(set(self.model.trx[si].fh[2])) > 1))),
                "kinds": sorted(set(e.kind for e in exp.values())),
            })
            for ri, e in exp.items():
                expected_total.setdefault(ri, []).append((si, b, e))
        for ri, r in enumerate(self.model.trx):
            got = by_dst.pop(r.peer("data"), [])
            self._check_recipient(fn, ri, r, got, expected_total.get(ri, []))
        if by_dst and (self.on("routing") or self.on("ports")):
            raise Violation(self.sig("routing", "unknown-destination"), "datagrams to %r" % (sorted(by_dst),))

    def _check_recipient(self, fn, ri, r, got, exps):
        """got: [(src_sock, payload)] in order; exps: [(si, burst, Expect)] in order"""
        routing = self.on("routing")
        gi = 0
        for si, b, e in exps:
            nxt = got[gi] if gi < len(got) else None
            dec = None
            if nxt is not None:
                try:
                    dec = ref_trxd.decode("rx", nxt[1])
                except ValueError:
                    dec = None
            if e.kind == "unspecified":
                self.stats["unspecified"] += 1
                # consume whatever matches this burst's (fn, tn)
                if dec is not None and dec["fn"] == b["fn"] and dec["tn"] == b["tn"]:
                    gi += 1
                continue
            if e.kind == "ambiguous-drop":
                is_burst = dec is not None and not dec.get("nope") and len(dec["soft_raw"]) > 0 and dec["fn"] == b["fn"] and dec["tn"] == b["tn"]
                self.model.resolve_ambiguous(e, not is_burst)
                e = self.model.burst_expect(e.s, e.r, e.b) if is_burst else (
                    self.model_nope(e.r, b))
            if e.kind == "nothing":
                self.stats["silent"] += 1
                continue
            if e.kind == "burst" and e.validity == "invalid":
                # value outside its protocol range: nothing may be sent (C13)
                self.stats["invalid_silent"] += 1
                continue
            if e.kind == "burst" and e.validity == "depends":
                self.stats["either"] += 1
                if dec is None or dec["fn"] != b["fn"] or dec["tn"] != b["tn"]:
                    continue
            if nxt is None:
                if routing or self.on("drop"):
                    raise Violation(self.sig("routing" if routing else "drop", "missing-%s" % e.kind),
                                    "tick %d: transceiver %d (%s) got nothing for burst fn=%d tn=%d from %d" % (
                                        fn, ri, r.name, b["fn"], b["tn"], si))
                continue
            gi += 1
            self._check_datagram(fn, ri, r, nxt, dec, si, b, e)
        extra = got[gi:]
        if extra and (routing or self.on("drop")):
            kinds = []
            for s, p in extra:
                try:
                    d = ref_trxd.decode("rx", p)
                    kinds.append("nope" if d.get("nope") else "burst(fn=%d)" % d["fn"])
                except ValueError:
                    kinds.append("garbage")
            why = "not-running" if not r.running else "unexpected"
            raise Violation(self.sig("routing" if routing else "drop", "extra-datagram:%s" % why), "tick %d: transceiver %d (%s, running=%r) received %s it must not get" % (
                fn, ri, r.name, r.running, kinds))

    def model_nope(self, r, b):
        from refs.trx_model import Expect
        if r.ver == 0:
            return Expect("nothing")
        return Expect("nope", ver=r.ver, fn=b["fn"], tn=b["tn"])

    def _check_datagram(self, fn, ri, r, nxt, dec, si, b, e):
        src_sock, payload = nxt
        if (self.on("ports") or self.on("routing")) and src_sock != r.sock("data"):
            raise Violation(self.sig("ports", "data-source-socket"), "burst for %s sent from %r, DATA socket is %r" % (r.name, src_sock, r.sock("data")))
        if dec is None:
            raise Violation(self.sig("metadata", "undecodable"), "datagram %s" % payload[:16].hex())
        meta = self.on("metadata")
        drop = self.on("drop")
        if dec["fn"] != b["fn"] or dec["tn"] != b["tn"]:
            if meta or self.on("routing") or drop:
                raise Violation(self.sig("metadata", "fn-tn"), "burst fn=%d tn=%d arrived as fn=%d tn=%d" % (b["fn"], b["tn"], dec["fn"], dec["tn"]))
        is_nope = bool(dec.get("nope")) or len(dec["soft_raw"]) == 0
        if e.kind == "nope":
            self.stats["nope"] += 1
            if drop or meta:
                if not is_nope:
                    raise Violation(self.sig("drop", "burst-not-suppressed"), "tick %d: burst fn=%d reached %s although it must be suppressed (muted/drop budget)" % (fn, b["fn"], r.name))
                if dec["ver"] != e.ver:
                    raise Violation(self.sig("drop", "nope-version"), "NOPE with version %d on a v%d link" % (dec["ver"], e.ver))
                if not dec.get("nope") or len(dec["soft_raw"]) != 0:
                    raise Violation(self.sig("drop", "nope-form"), "suppressed burst indicated as %s" % payload[:12].hex())
                if (dec["rssi"], dec["toa256"], dec["ci"]) != (NOISE["rssi"], NOISE["toa256"], NOISE["ci"]):
                    raise Violation(self.sig("drop", "nope-noise-values"), "NOPE carries rssi=%d toa=%d ci=%d" % (dec["rssi"], dec["toa256"], dec["ci"]))
            return
        # a real burst expected
        self.stats["delivered"] += 1
        if is_nope:
            if drop or self.on("routing") or meta:
                raise Violation(self.sig("drop", "unexpected-suppression"), "tick %d: burst fn=%d for %s was replaced by a NOPE" % (fn, b["fn"], r.name))
            return
        if not meta:
            return
        if dec["ver"] != e.ver:
            raise Violation(self.sig("metadata", "header-version"), "recipient negotiated v%d, datagram is v%d" % (e.ver, dec["ver"]))
        soft = dec["soft_raw"]
        n = len(e.soft)
        if e.ver == 0:
            if len(soft) != n + 2 or list(payload[-2:]) != [0, 0]:
                raise Violation(self.sig("metadata", "legacy-padding"), "v0 datagram carries %d octets after the header for a %d-bit burst" % (len(soft), n))
            soft = soft[:n]
        if soft != e.soft:
            k = next((i for i in range(min(len(soft), n)) if soft[i] != e.soft[i]), min(len(soft), n))
            raise Violation(self.sig("metadata", "bits"), "soft bit %d: %r for hard bit %r (len %d vs %d)" % (
                k, soft[k] if k < len(soft) else None, b["bits"][k] if k < n else None, len(soft), n))
        for name, key, rng in (("rssi", "rssi", e.rssi), ("toa", "toa256", e.toa)) + ((("ci", "ci", e.ci),) if e.ver >= 1 else ()):
            if not (rng[0] <= dec[key] <= rng[1]):
                raise Violation(self.sig("metadata", name), "%s=%d, expected %s (sender att=%d pwr=%d ta=%d; recipient fake_rssi=%r)" % (
                    name, dec[key], ("%d" % rng[0]) if rng[0] == rng[1] else "in [%d, %d]" % rng, e_s(self.model.trx[si]), b["pwr"], self.model.trx[si].ta, r.fake_rssi))
        if e.ver >= 1:
            if dec["mod"] != e.mod:
                raise Violation(self.sig("metadata", "modulation"), "%d-bit burst indicated as %r" % (n, dec["mod"]))
            if e.mod == "GMSK":
                allowed = e.tsc if e.tsc else {0}
                if dec["tsc"] not in allowed or dec["tsc_set"] != 0:
                    raise Violation(self.sig("metadata", "tsc"), "TSC %r set %r indicated, training sequence present: %s" % (
                        dec["tsc"], dec["tsc_set"], sorted(e.tsc) or "none"))
            elif not (0 <= dec["tsc"] <= 7 and 0 <= dec["tsc_set"] <= 1):
                raise Violation(self.sig("metadata", "tsc"), "TSC %r set %r out of range" % (dec["tsc"], dec["tsc_set"]))


def e_s(t):
    return t.att
