# Generators for FakeTRX application configurations and TRXC scripts
# (DESIGN.md section 2: trx_config, trxc_cmd).
from hypothesis import strategies as st

from harness import strategies as S

FREQ_POOL = [935000, 890000, 1805200]     # kHz, as sent in RXTUNE/TXTUNE/SETFH (small pool: matches are common)


@st.composite
def app_config(draw, max_extra=4, min_extra=0):
    """BTS + MS + up to max_extra additional transceivers (children of BTS / MS / an extra parent)"""
    bts_port, bb_port = draw(st.sampled_from([(5700, 6700), (5700, 6700), (5800, 6900), (6700, 5700), (10000, 20000)]))
    cfg = {"bts_port": bts_port, "bb_port": bb_port, "bts_addr": "127.0.0.1",
           "bb_addr": draw(st.sampled_from(["127.0.0.1", "127.0.0.1", "127.0.0.3"])),
           "bind_addr": draw(st.sampled_from(["0.0.0.0", "0.0.0.0", "127.0.0.10"])), "trx_defs": []}
    n = draw(st.integers(min_extra, max_extra))
    used = set()
    have_x = False
    xport = draw(st.sampled_from([7700, 30000]))
    for k in range(n):
        kind = draw(st.sampled_from(["bts_child", "bts_child", "ms_child", "extra", "extra_child"]))
        if kind == "extra_child" and not have_x:
            kind = "extra"
        if kind == "extra":
            if have_x:
                kind = "extra_child"
            else:
                have_x = True
                cfg["trx_defs"].append(("X", "127.0.0.2", xport, 0))
                continue
        addr, port, tag = {"bts_child": (cfg["bts_addr"], bts_port, "B"), "ms_child": (cfg["bb_addr"], bb_port, "M"),
                           "extra_child": ("127.0.0.2", xport, "XC")}[kind]
        idx = draw(st.one_of(st.integers(1, 4), st.integers(1, 4), st.sampled_from([9, 10, 11, 12, 20, 31])))
        while (addr, port, idx) in used:
            idx += 1
        used.add((addr, port, idx))
        cfg["trx_defs"].append(("%s%d" % (tag, idx), addr, port, idx))
    return cfg


def n_trx(cfg):
    return 2 + len(cfg["trx_defs"])


HOP_POOL = [(935000 + 200 * k, 890000 + 200 * k) for k in range(8)]     # (downlink, uplink) kHz pairs


@st.composite
def tune_script(draw, n, hopping=True, power=True, formats=True, mute_prob=0.1):
    """per-transceiver configuration commands: list of (trx index, verb, [args]).
    Hopping transceivers are mostly *coordinated* as in a real cell: one shared (HSN, MA), BTS-side transceivers
    receive on the uplink and transmit on the downlink frequency of each channel, MS-side ones the other way
    round, mostly the same MAIO - so that hopping peers do meet."""
    out = []
    shared_hsn = draw(st.one_of(st.just(0), st.integers(1, 63)))
    shared_ma = draw(st.lists(st.sampled_from(HOP_POOL), min_size=1, max_size=8, unique=True))
    shared_maio = draw(st.integers(0, len(shared_ma) - 1))
    # "one cell" flavour: fixed-tuned transceivers share one carrier pair, BTS-side ones mirrored to MS-side ones,
    # so that several transceivers receive the same burst (multi-recipient forwarding)
    cell = draw(st.booleans())
    cell_pair = draw(st.sampled_from(HOP_POOL))
    for i in range(n):
        mode = draw(st.sampled_from(["fixed", "fixed", "hop", "hop", "untuned"] if hopping else ["fixed", "fixed", "fixed", "untuned"]))
        if mode == "fixed" and cell and draw(st.integers(0, 5)) > 0:
            ms_side = (i == 1) or (i > 1 and draw(st.integers(0, 2)) > 0)
            (dl, ul) = cell_pair
            out.append((i, "RXTUNE", [str(dl if ms_side else ul)]))
            out.append((i, "TXTUNE", [str(ul if ms_side else dl)]))
        elif mode == "fixed" or (mode == "hop" and draw(st.booleans())):
            # many setups tune first and enable hopping on top
            out.append((i, "RXTUNE", [str(draw(st.sampled_from(FREQ_POOL)))]))
            out.append((i, "TXTUNE", [str(draw(st.sampled_from(FREQ_POOL)))]))
        if mode == "hop":
            if draw(st.integers(0, 4)) == 0:
                out.append((i, "SETFH", draw(setfh_args())))
            else:
                ms_side = draw(st.booleans()) if i != 0 and i != 1 else (i == 1)
                maio = shared_maio if draw(st.integers(0, 4)) else draw(st.integers(0, len(shared_ma) - 1))
                args = [str(shared_hsn), str(maio)]
                for (dl, ul) in shared_ma:
                    args += ([str(dl), str(ul)] if ms_side else [str(ul), str(dl)])
                out.append((i, "SETFH", args))
        if formats and draw(st.booleans()):
            out.append((i, "SETFORMAT", [str(draw(st.sampled_from([0, 1, 1, 2])))]))
        if draw(st.floats(0, 1)) < mute_prob:
            out.append((i, "RFMUTE", ["1"]))
    if power:
        order = draw(st.permutations(list(range(n))))
        for i in order:
            if draw(st.integers(0, 9)) < 8:
                out.append((i, "POWERON", []))
    return out


@st.composite
def setfh_args(draw, max_ch=6):
    hsn = draw(st.one_of(st.just(0), st.integers(0, 63)))
    nch = draw(st.integers(1, max_ch))
    maio = draw(st.integers(0, max(0, nch - 1)))
    args = [str(hsn), str(maio)]
    for _ in range(nch):
        args += [str(draw(st.sampled_from(FREQ_POOL))), str(draw(st.sampled_from(FREQ_POOL)))]
    return args


def burst_bits(n=None):
    n_st = st.sampled_from((148, 148, 148, 444)) if n is None else st.just(n)
    return n_st.flatmap(lambda k: S.hard_bits(k))
