# Generators shared by several properties (DESIGN.md section 2).  Constructive:
# no assume()/filter() on the hot paths.
from hypothesis import strategies as st

from refs.ref_trxd import HYPERFRAME, MODS

_pow2 = []
for _k in range(1, 22):
    _pow2 += [2 ** _k - 1, 2 ** _k, 2 ** _k + 1]
FN_BOUNDARIES = sorted(set(v for v in [0, 1, 25, 26, 50, 51, 101, 102, 103, 1325, 1326, 1327,
                                       HYPERFRAME - 2, HYPERFRAME - 1] + _pow2 if 0 <= v < HYPERFRAME))


def fn():
    return st.one_of(st.sampled_from(FN_BOUNDARIES), st.integers(0, HYPERFRAME - 1))


def biased(lo, hi, extra=()):
    """integer in [lo, hi], boundary-biased"""
    pts = sorted(set(v for v in [lo, lo + 1, hi - 1, hi, 0, -1, 1, (lo + hi) // 2] + list(extra) if lo <= v <= hi))
    return st.one_of(st.sampled_from(pts), st.integers(lo, hi))


def hard_bits(n):
    """bytes of n octets each 0 or 1"""
    pats = [bytes(n), bytes([1]) * n, bytes([i & 1 for i in range(n)]), bytes([(i + 1) & 1 for i in range(n)])]
    rnd = st.binary(min_size=n, max_size=n).map(lambda b: bytes(x & 1 for x in b))
    return st.one_of(rnd, rnd, rnd, st.sampled_from(pats))


def soft_bits(n):
    """list of n ints in -127..127"""
    pats = [[0] * n, [127] * n, [-127] * n, [(-127 if i & 1 else 127) for i in range(n)],
            [((i * 7) % 255) - 127 for i in range(n)]]
    rnd = st.binary(min_size=n, max_size=n).map(lambda b: [(x % 255) - 127 for x in b])
    return st.one_of(rnd, rnd, rnd, st.sampled_from(pats))


@st.composite
def tx_msg(draw, vers=(0, 1), lens=(148, 444)):
    n = draw(st.sampled_from(lens))
    return {"cls": "tx", "ver": draw(st.sampled_from(vers)), "fn": draw(fn()), "tn": draw(st.integers(0, 7)),
            "pwr": draw(biased(0, 255)), "bits": draw(hard_bits(n))}


@st.composite
def rx_msg(draw, vers=(0, 1)):
    ver = draw(st.sampled_from(vers))
    m = {"cls": "rx", "ver": ver, "fn": draw(fn()), "tn": draw(st.integers(0, 7)),
         "rssi": draw(biased(-120, -47)), "toa256": draw(biased(-32768, 32767))}
    if ver == 0:
        m["soft"] = draw(soft_bits(draw(st.sampled_from((148, 444)))))
        return m
    m["ci"] = draw(biased(-1280, 1280))
    m["nope"] = draw(st.sampled_from((False, False, False, True)))
    if m["nope"]:
        m["soft"] = None
        m["mod"] = "GMSK"
        return m
    mod = draw(st.sampled_from(sorted(MODS)))
    m["mod"] = mod
    m["tsc_set"] = draw(st.integers(0, 3 if mod == "GMSK" else 1))
    m["tsc"] = draw(st.integers(0, 7))
    m["soft"] = draw(soft_bits(MODS[mod][1]))
    return m


def any_msg(vers=(0, 1)):
    return st.one_of(tx_msg(vers), rx_msg(vers))
