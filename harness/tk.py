# Access to the toolkit under test (imported from the working tree) and
# converters between JSON-able message dicts (see refs/ref_trxd.py) and the
# toolkit's message objects.
import os
import sys
from array import array

from harness.core import TOOLKIT, HarnessError

if TOOLKIT not in sys.path:
    sys.path.insert(0, TOOLKIT)

try:
    import data_msg  # noqa: E402
    import gsm_shared  # noqa: E402
except Exception as e:  # pragma: no cover
    raise HarnessError("cannot import toolkit from %s: %r" % (TOOLKIT, e))

for _m in (data_msg, gsm_shared):
    if not os.path.abspath(_m.__file__).startswith(os.path.abspath(TOOLKIT)):
        raise HarnessError("toolkit module %s imported from %s" % (_m.__name__, _m.__file__))

MOD_BY_NAME = {
    "GMSK": "ModGMSK", "8PSK": "Mod8PSK", "GMSK_AB": "ModGMSK_AB",
    "16QAM": "Mod16QAM", "32QAM": "Mod32QAM", "AQPSK": "ModAQPSK",
}
NAME_BY_MOD = {v: k for k, v in MOD_BY_NAME.items()}


def modulation(name):
    if name is None:
        return None
    return getattr(data_msg.Modulation, MOD_BY_NAME[name])


def mod_name(mod):
    if mod is None:
        return None
    return NAME_BY_MOD.get(getattr(mod, "name", None), repr(mod))


def build_msg(m):
    """message dict -> toolkit message object (fields assigned verbatim, no
    validation: C13 feeds invalid ones on purpose)."""
    if m["cls"] == "tx":
        msg = data_msg.TxMsg(fn=m.get("fn"), tn=m.get("tn"), ver=m.get("ver", 0))
        msg.pwr = m.get("pwr")
        bits = m.get("bits")
        msg.burst = None if bits is None else bytearray(bits)
        return msg
    msg = data_msg.RxMsg(fn=m.get("fn"), tn=m.get("tn"), ver=m.get("ver", 0))
    msg.rssi = m.get("rssi")
    msg.toa256 = m.get("toa256")
    if "mod" in m:
        msg.mod_type = modulation(m["mod"]) if isinstance(m["mod"], (str, type(None))) else m["mod"]
    if "nope" in m:
        msg.nope_ind = m["nope"]
    if "tsc_set" in m:
        msg.tsc_set = m["tsc_set"]
    if "tsc" in m:
        msg.tsc = m["tsc"]
    if "ci" in m:
        msg.ci = m["ci"]
    soft = m.get("soft")
    msg.burst = None if soft is None else array("b", soft)
    return msg


def msg_fields(msg):
    """toolkit message object -> comparable dict of everything it carries"""
    d = {"ver": msg.ver, "fn": msg.fn, "tn": msg.tn}
    if isinstance(msg, data_msg.TxMsg):
        d["cls"] = "tx"
        d["pwr"] = msg.pwr
        d["bits"] = None if msg.burst is None else [int(b) for b in msg.burst]
    else:
        d["cls"] = "rx"
        d["rssi"] = msg.rssi
        d["toa256"] = msg.toa256
        d["soft"] = None if msg.burst is None else [int(b) for b in msg.burst]
        d["nope"] = bool(msg.nope_ind)
        d["mod"] = mod_name(msg.mod_type)
        d["tsc_set"] = msg.tsc_set
        d["tsc"] = msg.tsc
        d["ci"] = msg.ci
    return d


def new_msg(cls):
    return data_msg.TxMsg() if cls == "tx" else data_msg.RxMsg()
