# Builds and talks to c/drv_trxif.c: the unmodified trxcon trx_if.c behind a line protocol.
import os

from harness import cbuild
from harness.core import REPO, VERIF, HarnessError


def build(ctx, fuzz=False):
    b = ctx.build
    shim = os.path.join(cbuild.CSHIM, "osmo")
    inc = ["-I", shim, "-I", os.path.join(REPO, "src/host/trxcon/include"),
           "-I", os.path.join(REPO, "src/shared/libosmocore/include"),
           "-include", "stdarg.h", "-include", "stdbool.h", "-D_GNU_SOURCE"]
    old_inc = ["-I", os.path.join(REPO, "src/shared/libosmocore/include"), "-I", os.path.join(cbuild.CSHIM, "fw/cfgdir/a/b")]
    objs = [
        cbuild.compile_obj(os.path.join(REPO, "src/host/trxcon/src/trx_if.c"), os.path.join(b, "trx_if.o"), inc),
        cbuild.compile_obj(os.path.join(REPO, "src/shared/libosmocore/src/gsm/gsm_utils.c"), os.path.join(b, "gsm_utils.o"), old_inc),
    ]
    if fuzz:
        # libFuzzer build of the same driver file (entry LLVMFuzzerTestOneInput); code under test gets coverage instrumentation
        fz = ["-fsanitize=fuzzer-no-link"]
        objs[0] = cbuild.compile_obj(os.path.join(REPO, "src/host/trxcon/src/trx_if.c"), os.path.join(b, "trx_if_fz.o"), inc + fz)
        objs.append(cbuild.compile_obj(os.path.join(VERIF, "c", "drv_trxif.c"), os.path.join(b, "fuzz_trxif.o"), inc + fz + ["-DFUZZ_TARGET"]))
        return cbuild.link(objs, os.path.join(b, "fuzz_trxif"), extra=["-fsanitize=fuzzer"])
    objs.append(cbuild.compile_obj(os.path.join(VERIF, "c", "drv_trxif.c"), os.path.join(b, "drv_trxif.o"), inc))
    return cbuild.link(objs, os.path.join(b, "drv_trxif"))


class TrxIf:
    def __init__(self, exe):
        self.drv = cbuild.Driver(exe, max_line=65000)
        self.req("open")

    def req(self, line):
        return self.drv.request(line)

    @staticmethod
    def parse(lines):
        out = {"ctrl": [], "data": [], "burst_ind": None, "rts": None, "rsp_measure": None, "rc": None, "state": None}
        for l in lines:
            t = l.split(" ")
            if t[0] == "CTRL":
                out["ctrl"].append(bytes.fromhex(t[2]) if len(t) > 2 else b"")
            elif t[0] == "DATA":
                out["data"].append(bytes.fromhex(t[2]) if len(t) > 2 else b"")
            elif t[0] == "RC":
                out["rc"] = int(t[1])
            elif t[0] == "BURST_IND":
                soft = bytes.fromhex(t[6]) if len(t) > 6 else b""
                out["burst_ind"] = {"fn": int(t[1]), "tn": int(t[2]), "rssi": int(t[3]), "toa256": int(t[4]), "len": int(t[5]),
                                    "soft": [x - 256 if x > 127 else x for x in soft]}
            elif t[0] == "RTS":
                out["rts"] = (int(t[1]), int(t[2]))
            elif t[0] == "RSP_MEASURE":
                out["rsp_measure"] = (int(t[1]), int(t[2]))
            elif t[0] == "STATE":
                out["state"] = {"state": t[1], "qlen": int(t[3]), "term": int(t[5])}
        return out

    def close(self):
        self.drv.close()
