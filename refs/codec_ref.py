# Independent interpreter of generated protocol-definition trees (property C16).
# A definition is a list of field specs (dicts, see checks/c16.py); the encoder
# below lays octets out from the documented meaning of each building block,
# working on bit strings and div/mod arithmetic - it shares no code with
# trx_toolkit/codec.py.
#
# encode(fields, vals) -> Layout: .octets (bytes), .spare (bytes mask of
# don't-care bits), .fixed (list of (octet index, bit mask) of fixed-value
# bit-fields), .tail (offset where a flexible tail begins, or None)


class Unencodable(Exception):
    pass


class Layout:
    def __init__(self):
        self.octets = bytearray()
        self.spare = bytearray()
        self.fixed = []
        self.tail = None

    def add(self, octs, spare=None):
        self.octets += bytes(octs)
        self.spare += bytes(spare) if spare is not None else bytes(len(octs))


def int_to_octets(raw, n, bo, signed):
    lo, hi = (-(1 << (8 * n - 1)), (1 << (8 * n - 1)) - 1) if signed else (0, (1 << (8 * n)) - 1)
    if not (lo <= raw <= hi):
        raise Unencodable("integer %d does not fit %d octets (signed=%s)" % (raw, n, signed))
    if raw < 0:
        raw += 1 << (8 * n)
    out = []
    for i in range(n):
        out.append((raw // (256 ** (n - 1 - i))) % 256)
    return out if bo == "big" else out[::-1]


def bits_layout(spec, vals):
    """returns (octets, sparemask, fixedmask) of a bit-field set"""
    n = spec["len"]
    flds = spec["fields"] if spec["order"] == "big" else spec["fields"][::-1]
    val_bits, spare_bits, fixed_bits = "", "", ""
    for f in flds:
        bl = f["bl"]
        if f.get("name") is None:
            val_bits += "0" * bl
            spare_bits += "1" * bl
            fixed_bits += "0" * bl
            continue
        v = f["val"] if f.get("val") is not None else vals[f["name"]]
        v = v % (1 << bl)                      # over-wide values are truncated to the field width
        val_bits += format(v, "0%db" % bl)
        spare_bits += "0" * bl
        fixed_bits += ("1" if f.get("val") is not None else "0") * bl
    assert len(val_bits) == 8 * n
    to_oct = lambda s: [int(s[i:i + 8], 2) for i in range(0, len(s), 8)]
    return to_oct(val_bits), to_oct(spare_bits), to_oct(fixed_bits)


def present(f, vals):
    return not ("pres" in f) or bool(vals[f["pres"]])


def encode_into(lay, fields, vals, top=True):
    for idx, f in enumerate(fields):
        if not present(f, vals):
            continue
        k = f["k"]
        last = idx == len(fields) - 1
        if k == "int":
            raw, rem = divmod(vals[f["name"]] - f["offset"], f["mult"])
            if rem:
                raise Unencodable("value not representable")
            lay.add(int_to_octets(raw, f["len"], f["bo"], f["signed"]))
        elif k == "buf":
            data = bytes(vals[f["name"]])
            if f.get("len"):
                if len(data) != f["len"]:
                    raise Unencodable("buffer of %d octets for a %d octet field" % (len(data), f["len"]))
            elif "lenfrom" not in f:
                if lay.tail is None:
                    lay.tail = len(lay.octets)
            lay.add(data)
        elif k == "spare":
            lay.add([f["filler"]] * f["len"], [255] * f["len"])
        elif k == "bits":
            o, s, fx = bits_layout(f, vals)
            base = len(lay.octets)
            lay.add(o, s)
            for i, m in enumerate(fx):
                if m:
                    lay.fixed.append((base + i, m))
        elif k == "env":
            if not f.get("len") and lay.tail is None and "lenfrom" not in f:
                lay.tail = len(lay.octets)
            before = len(lay.octets)
            encode_into(lay, f["fields"], vals[f["name"]], top=False)
            if f.get("len") and len(lay.octets) - before != f["len"]:
                raise Unencodable("nested size")
        elif k == "seq":
            if "lenfrom" not in f and lay.tail is None:
                lay.tail = len(lay.octets)
            for item in vals[f["name"]]:
                encode_into(lay, f["item"], item, top=False)
        else:
            raise ValueError(k)


def encode(fields, vals):
    lay = Layout()
    encode_into(lay, fields, vals)
    return lay


def static_size(fields):
    """octets of a definition if that is independent of the values, else None"""
    n = 0
    for f in fields:
        if "pres" in f or "lenfrom" in f:
            return None
        k = f["k"]
        if k in ("int", "spare", "bits"):
            n += f["len"]
        elif k == "buf":
            if not f.get("len"):
                return None
            n += f["len"]
        elif k == "env":
            s = static_size(f["fields"])
            if s is None:
                return None
            n += s
        else:
            return None
    return n
