# Reference for the sercomm serial framing (property C06): frame = 7E addr 03 body 7E, inside the body the
# octets 7E, 7D and 00 are sent as 7D followed by the octet with bit 5 inverted.
FLAG, ESC, CTRL_UI = 0x7E, 0x7D, 0x03


def encode(dlci, payload):
    out = [FLAG]
    for b in [dlci, CTRL_UI] + list(payload):
        if b in (FLAG, ESC, 0x00):
            out += [ESC, b ^ 0x20]
        else:
            out.append(b)
    out.append(FLAG)
    return bytes(out)


def split_frames(wire):
    """wire: octets pulled from a transmitter.  Returns (frames, error) where each frame is
    (start offset, end offset, dlci, payload); error is a string if the stream violates the framing rules"""
    frames = []
    i, n = 0, len(wire)
    while i < n:
        if wire[i] != FLAG:
            return frames, "octet %#x at offset %d outside a frame" % (wire[i], i)
        start = i
        i += 1
        body = []
        while True:
            if i >= n:
                return frames + [(start, None, None, None)], None       # frame still in transmission
            b = wire[i]
            if b == FLAG:
                break
            if b == 0x00:
                return frames, "unescaped zero octet inside a frame at offset %d" % i
            if b == ESC:
                if i + 1 >= n:
                    return frames + [(start, None, None, None)], None
                e = wire[i + 1]
                if e ^ 0x20 not in (FLAG, ESC, 0x00):
                    return frames, "escape followed by %#x at offset %d" % (e, i)
                body.append(e ^ 0x20)
                i += 2
                continue
            body.append(b)
            i += 1
        if len(body) < 2:
            return frames, "frame at offset %d has no address/control octets" % start
        if body[1] != CTRL_UI:
            return frames, "control octet %#x at offset %d" % (body[1], start)
        frames.append((start, i, body[0], bytes(body[2:])))
        i += 1
    return frames, None
