# 3GPP TS 45.002 section 6.2.3 hopping sequence generation, written from the
# specification text with div/mod arithmetic.  RNTABLE is table 6 of the spec.
RNTABLE = [
    48, 98, 63, 1, 36, 95, 78, 102, 94, 73,
    0, 64, 25, 81, 76, 59, 124, 23, 104, 100,
    101, 47, 118, 85, 18, 56, 96, 86, 54, 2,
    80, 34, 127, 13, 6, 89, 57, 103, 12, 74,
    55, 111, 75, 38, 109, 71, 112, 29, 11, 88,
    87, 19, 3, 68, 110, 26, 33, 31, 8, 45,
    82, 58, 40, 107, 32, 5, 106, 92, 62, 67,
    77, 108, 122, 37, 60, 66, 121, 42, 51, 126,
    117, 114, 4, 90, 43, 52, 53, 113, 120, 72,
    16, 49, 7, 79, 119, 61, 22, 84, 9, 97,
    91, 15, 21, 24, 46, 39, 93, 105, 65, 70,
    125, 99, 17, 123,
]
assert len(RNTABLE) == 114 and len(set(RNTABLE)) == 114 and max(RNTABLE) == 127


def nbin(n):
    """number of bits required to represent N = INTEGER(log2(N) + 1)"""
    b = 0
    while (1 << b) <= n:
        b += 1
    return b


def xor6(a, b):
    """bit-wise exclusive or of 6-bit binary operands"""
    r = 0
    for i in range(6):
        if ((a // (1 << i)) % 2) != ((b // (1 << i)) % 2):
            r += 1 << i
    return r


def mai(hsn, maio, n, fn):
    if hsn == 0:
        return (fn + maio) % n
    t1r = (fn // 1326) % 64
    t2 = fn % 26
    t3 = fn % 51
    m = t2 + RNTABLE[xor6(hsn, t1r) + t3]
    p = 1 << nbin(n)
    mp = m % p
    tp = t3 % p
    s = mp if mp < n else (mp + tp) % n
    return (s + maio) % n


def fn_from_t(t1, t2, t3):
    """TS 45.002 4.3.3: the FN with the given T1, T2, T3"""
    return 51 * ((t3 - t2) % 26) + t3 + 1326 * t1
