# 3GPP TS 44.018 10.5.2.21 Mobile Allocation, written from the specification:
# the cell allocation is ordered by ascending ARFCN with ARFCN 0 last; bit i
# of the bitmap (i = 0 is the least significant bit of the LAST octet) selects
# the i-th channel of that ordered list.


def ordered_ca(ca):
    s = sorted(set(a for a in ca if a != 0))
    if 0 in ca:
        s.append(0)
    return s


def decode(ca, bitmap):
    """returns the hopping list; decoding stops at the first set bit that points beyond the cell allocation"""
    oca = ordered_ca(ca)
    n = len(bitmap)
    out = []
    for i in range(8 * n):
        octet = bitmap[n - 1 - i // 8]
        if (octet // (1 << (i % 8))) % 2:
            if i >= len(oca):
                break
            out.append(oca[i])
    return out
