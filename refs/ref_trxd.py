# Reference model of the TRXD v0/v1 octet layout, written from the protocol
# description (osmo-trx TRXD documentation quoted in property C04), with plain
# integer arithmetic (no struct, no translate tables).  Imports nothing from
# the code under test.
#
# Message dict:
#   cls    'tx' (L1 -> TRX) | 'rx' (TRX -> L1)
#   ver    0 | 1
#   fn, tn
#   tx: pwr, bits  (list/bytes of 0/1)                       burst mandatory
#   rx: rssi, toa256, [v1: nope, mod, tsc_set, tsc, ci], soft (list of -127..127) or None

HYPERFRAME = 2048 * 26 * 51

# name -> (coding in the 4-bit modulation field, burst length in soft bits)
MODS = {
    "GMSK": (0b0000, 148),
    "8PSK": (0b0100, 444),
    "GMSK_AB": (0b0110, 148),
    "16QAM": (0b1000, 592),
    "32QAM": (0b1010, 740),
    "AQPSK": (0b1100, 296),
}


def be(val, n):
    """unsigned big-endian, n octets"""
    out = []
    for i in range(n):
        out.append((val // (256 ** (n - 1 - i))) % 256)
    return out


def twos(val, bits):
    return val if val >= 0 else val + (1 << bits)


def untwos(val, bits):
    return val - (1 << bits) if val >= (1 << (bits - 1)) else val


def mts_octet(m):
    if m.get("nope"):
        return 0x80
    code, _ = MODS[m["mod"]]
    # bits 6..3: modulation coding combined with TSC set (2 bits for GMSK, 1 otherwise)
    return ((code + m["tsc_set"]) * 8 + m["tsc"]) % 256


def encode(m, legacy=False):
    out = [m["ver"] * 16 + m["tn"]]
    out += be(m["fn"], 4)
    if m["cls"] == "tx":
        out.append(m["pwr"])
        out += [int(b) for b in m["bits"]]
    else:
        out.append(-m["rssi"])
        out += be(twos(m["toa256"], 16), 2)
        if m["ver"] >= 1:
            out.append(mts_octet(m))
            out += be(twos(m["ci"], 16), 2)
        if m.get("soft") is not None:
            out += [127 - s for s in m["soft"]]
    if legacy and m["ver"] == 0:
        out += [0, 0]
    return bytes(out)


def decode(cls, data):
    """Interpret octets per the layout.  Returns a message dict or raises
    ValueError when the datagram cannot be a TRXD message of that direction
    (too short / unknown version).  Burst length handling mirrors the protocol:
    v0: GSM or EDGE length, optionally followed by two padding octets."""
    data = bytes(data)
    if len(data) < 5:
        raise ValueError("short")
    ver = data[0] // 16
    if ver not in (0, 1):
        raise ValueError("version")
    m = {"cls": cls, "ver": ver, "tn": data[0] % 8,
         "fn": ((data[1] * 256 + data[2]) * 256 + data[3]) * 256 + data[4]}
    if cls == "tx":
        if len(data) < 6:
            raise ValueError("short")
        m["pwr"] = data[5]
        rest = data[6:]
        m["bits_raw"] = rest
        return m
    hl = 8 if ver == 0 else 11
    if len(data) < hl:
        raise ValueError("short")
    m["rssi"] = -data[5]
    m["toa256"] = untwos(data[6] * 256 + data[7], 16)
    if ver == 1:
        mts = data[8]
        m["nope"] = mts >= 128
        if not m["nope"]:
            m["tsc"] = mts % 8
            modbits = (mts // 8) % 16
            if modbits < 4:
                m["mod"], m["tsc_set"] = "GMSK", modbits
            else:
                m["tsc_set"] = modbits % 2
                m["mod"] = None
                for k, (code, _) in MODS.items():
                    if code == modbits - modbits % 2:
                        m["mod"] = k
        m["ci"] = untwos(data[9] * 256 + data[10], 16)
    rest = data[hl:]
    m["soft_raw"] = [(-127 if b == 255 else 127 - b) for b in rest]
    return m
