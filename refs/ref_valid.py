# Reference validity predicate for TRXD messages, transcribed from the value
# ranges listed in property C13 (TRXD protocol ranges).  Independent of the
# code under test.  A field the message's version does not carry cannot make
# the message invalid.
from refs.ref_trxd import HYPERFRAME, MODS


def _int(v):
    return isinstance(v, int) and not isinstance(v, bool)


def valid(m):
    """m: message dict with keys cls, ver, fn, tn and
       tx: pwr, burst_len (None = no burst)
       rx: rssi, toa256, mod (name or None), tsc_set, tsc, ci, nope, burst_len
    Returns (ok, reason)."""
    if m.get("ver") not in (0, 1):
        return False, "version"
    if not _int(m.get("fn")) or not (0 <= m["fn"] <= HYPERFRAME - 1):
        return False, "fn"
    if not _int(m.get("tn")) or not (0 <= m["tn"] <= 7):
        return False, "tn"
    bl = m.get("burst_len")
    if m["cls"] == "tx":
        if not _int(m.get("pwr")) or not (0 <= m["pwr"] <= 255):
            return False, "pwr"
        if bl not in (148, 444):
            return False, "burst"
        return True, ""
    if not _int(m.get("rssi")) or not (-120 <= m["rssi"] <= -47):
        return False, "rssi"
    if not _int(m.get("toa256")) or not (-32768 <= m["toa256"] <= 32767):
        return False, "toa256"
    if m["ver"] == 0:
        if bl not in (148, 444):
            return False, "burst"
        return True, ""
    nope = bool(m.get("nope"))
    if not nope:
        if m.get("mod") not in MODS:
            return False, "mod"
        hi = 3 if m["mod"] == "GMSK" else 1
        if not _int(m.get("tsc_set")) or not (0 <= m["tsc_set"] <= hi):
            return False, "tsc_set"
        if not _int(m.get("tsc")) or not (0 <= m["tsc"] <= 7):
            return False, "tsc"
    if not _int(m.get("ci")) or not (-1280 <= m["ci"] <= 1280):
        return False, "ci"
    if nope:
        if bl is not None:
            return False, "nope-with-burst"
        return True, ""
    if bl is None or bl != MODS[m["mod"]][1]:
        return False, "burst"
    return True, ""
