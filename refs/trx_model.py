# Reference model of the FakeTRX application: TRXC command semantics, power /
# child / clock wiring, transmit queue, virtual-Um routing and the simulated
# radio metadata.  Written from the class docstrings of the toolkit and from
# the property texts C02/C03/C05/C10/C12/C18; imports nothing from the code
# under test.
from refs import ref_hop
from refs.ref_trxd import HYPERFRAME

NOMINAL_TX_POWER = 50
PATH_LOSS = 110
NOISE = {"rssi": -110, "toa256": 0, "ci": -30}
PM_NOISE = (-120, -105)
PM_TRX = (-75, -50)

# Training sequences, TS 45.002 5.2.3 (NB, TSC set 1), 5.2.5 (SB), 5.2.7 (AB)
NB_TSC = [
    "00100101110000100010010111", "00101101110111100010110111", "01000011101110100100001110",
    "01000111101101000100011110", "00011010111001000001101011", "01001110101100000100111010",
    "10100111110110001010011111", "11101111000100101110111100",
]
SB_TSC = [
    "1011100101100010000001000000111100101101010001010111011000011011",
    "1110111001101011001010000011111011110100011111101100101100010101",
    "1110110000110111010100010101101001111000000100000010001101001110",
    "1011101000111101110101101111010010001011010000001000111010011000",
]
AB_TSC = [
    "01001011011111111001100110101010001111000", "01010100111110001000011000101111001001101",
    "11101111001001110101011000001101101110111", "10001000111010111011010000010000101100010",
    "11001001110001001110000000001101010110010", "01010000111111110101110101101100110010100",
    "01011110011101011110110100010011000010111", "01000010110000011101001010111011100010000",
]
NB_POS, SB_POS, AB_POS = 61, 42, 8


def bits_of(s):
    return bytes(int(c) for c in s)


def tsc_candidates(bits):
    """set of TSC values whose training sequence sits at its standard position"""
    out = set()
    b = bytes(bits)
    for i, s in enumerate(NB_TSC):
        if b[NB_POS:NB_POS + 26] == bits_of(s):
            out.add(i)
    for i, s in enumerate(SB_TSC):
        if b[SB_POS:SB_POS + 64] == bits_of(s):
            out.add(i)
    for i, s in enumerate(AB_TSC):
        if b[AB_POS:AB_POS + 41] == bits_of(s):
            out.add(i)
    return out


def is_int(s):
    """decimal integer literal as int() accepts it without surprises"""
    s2 = s[1:] if s[:1] in "+-" else s
    return s2.isdigit() and s2.isascii()


class Trx:
    def __init__(self, name, addr, port, idx, child_mgt, has_clck, bind_addr):
        self.name, self.addr, self.port, self.idx = name, addr, port, idx
        self.child_mgt, self.has_clck, self.bind_addr = child_mgt, has_clck, bind_addr
        self.children = []
        self.running = False
        self.rx = self.tx = None
        self.fh = None            # (hsn, maio, [(rx, tx), ...])
        self.ver = 0
        self.ta = 0
        self.att = 0
        self.muted = False
        self.fake_rssi = False
        self.rssi_base, self.rssi_thr = NOMINAL_TX_POWER - PATH_LOSS, 0
        self.toa_base, self.toa_thr = 0, 0
        self.ci_base, self.ci_thr = 90, 0
        self.drop = {0}           # set of possible remaining drop budgets (see C18 soundness note)
        self.drop_period = 1
        self.queue = []           # bursts accepted from L1, waiting for their frame
        self.delay_ms = 0
        self.dirty = False        # hostile control input seen, settings unknown until the recovery script ran (C14)

    # addresses
    def sock(self, kind):
        off = {"clck": 0, "ctrl": 1 + 2 * self.idx, "data": 2 + 2 * self.idx}[kind]
        return (self.bind_addr, self.port + off)

    def peer(self, kind):
        off = {"clck": 100, "ctrl": 101 + 2 * self.idx, "data": 102 + 2 * self.idx}[kind]
        return (self.addr, self.port + off)

    @property
    def ready(self):
        return (self.rx is not None and self.tx is not None) or self.fh is not None

    def freq(self, which, fn):
        if self.fh is None:
            return self.rx if which == "rx" else self.tx
        hsn, maio, ma = self.fh
        pair = ma[ref_hop.mai(hsn, maio, len(ma), fn)]
        return pair[0] if which == "rx" else pair[1]


class Expect:
    """what the L1 peer of one recipient must see for one transmitted burst"""

    def __init__(self, kind, **kw):
        self.kind = kind      # 'burst' | 'nope' | 'nothing' | 'either' (validity depends on a random draw)
        self.__dict__.update(kw)


class Model:
    def __init__(self, trx_defs=(), bts_port=5700, bb_port=6700, bts_addr="127.0.0.1", bb_addr="127.0.0.1",
                 bind_addr="0.0.0.0", hsn_checked=True, neg_window_checked=True):
        self.trx = [Trx("BTS", bts_addr, bts_port, 0, True, True, bind_addr),
                    Trx("MS", bb_addr, bb_port, 0, False, True, bind_addr)]
        for (name, addr, port, idx) in trx_defs:
            if idx == 0:
                self.trx.append(Trx(name, addr, port, 0, True, True, bind_addr))
            else:
                parent = [t for t in self.trx if t.addr == addr and t.port == port and t.idx == 0][0]
                c = Trx(name, addr, port, idx, True, False, bind_addr)
                self.trx.append(c)
                parent.children.append(c)
        self.clock_links = []     # transceivers (clock owners) whose CLCK link is attached
        self.clock_running = False
        self.next_id = 0

    # ------------------------------------------------------------------ TRXC
    def command(self, i, verb, args):
        """returns (status, results, strict) - strict False means the property
        does not fix the status (only the framing is asserted)"""
        t = self.trx[i]
        n = len(args)
        ints = all(is_int(a) for a in args)
        a = [int(x) for x in args] if ints else None

        def ok(st=0, res=None):
            return (st, res or [], True)

        if verb == "POWERON" and n == 0:
            if t.running or not t.ready:
                return ok(-1)
            self.power(t, True)
            return ok(0)
        if verb == "POWEROFF" and n == 0:
            self.power(t, False)
            return ok(0)
        if verb == "RXTUNE" and n == 1 and ints:
            t.rx = a[0] * 1000
            return ok()
        if verb == "TXTUNE" and n == 1 and ints:
            t.tx = a[0] * 1000
            return ok()
        if verb == "MEASURE" and n == 1 and ints:
            freq = a[0] * 1000
            hit = any(x.running and x.fh is None and x.tx == freq for x in self.trx)
            return (0, [("range", PM_TRX if hit else PM_NOISE)], True)
        if verb == "SETFH" and n >= 4 and ints:
            hsn, maio = a[0], a[1]
            fr = [f * 1000 for f in a[2:]]
            ma = list(zip(fr[0::2], fr[1::2]))
            if not (0 <= hsn <= 63):
                # HSN is a 6-bit value; anything else cannot select a sequence: must be refused
                return ok(-1)
            t.fh = (hsn, maio, ma)
            return ok(0)
        if verb == "SETFORMAT" and n == 1 and ints:
            v = a[0]
            if v < 0 or v > 15:
                return ok(-1)
            if v in (0, 1):
                t.ver = v
                return ok(v)
            return ok(1)
        if verb == "SETPOWER" and n == 1 and ints:
            t.att = a[0]
            return ok()
        if verb == "NOMTXPOWER" and n == 0:
            return ok(0, [str(NOMINAL_TX_POWER)])
        if verb == "RFMUTE" and n == 1 and ints:
            t.muted = a[0] > 0
            return ok()
        if verb == "SETTA" and n == 1 and ints:
            t.ta = a[0]
            return ok()
        if verb == "FAKE_TOA" and ints and n in (1, 2):
            if n == 2:
                if a[1] < 0:
                    return (None, [], False)      # negative window: not specified; state must stay usable (C14)
                t.toa_base, t.toa_thr = a
            else:
                t.toa_base += a[0]
            return ok()
        if verb == "FAKE_RSSI" and ints and n in (1, 2):
            if n == 2:
                if a[1] < 0:
                    t.fake_rssi = False
                else:
                    t.rssi_base, t.rssi_thr = a
                    t.fake_rssi = True
            else:
                t.rssi_base += a[0]
            return ok()
        if verb == "FAKE_CI" and ints and n in (1, 2):
            if n == 2:
                if a[1] < 0:
                    return (None, [], False)
                t.ci_base, t.ci_thr = a
            else:
                t.ci_base += a[0]
            return ok()
        if verb == "FAKE_DROP" and ints and n in (1, 2):
            if a[0] < 0 or (n == 2 and a[1] <= 0):
                return ok(-1)
            t.drop = {a[0]}
            t.drop_period = a[1] if n == 2 else 1
            return ok()
        if verb == "FAKE_TRXC_DELAY" and ints and n == 1:
            if a[0] > 3600 * 1000:
                return (None, [], False)     # absurd delay: refused or not, not fixed by the property; must not crash (C14)
            t.delay_ms = a[0]
            return ok()
        known = {"POWERON", "POWEROFF", "RXTUNE", "TXTUNE", "MEASURE", "SETFH", "SETFORMAT", "SETPOWER", "NOMTXPOWER",
                 "RFMUTE", "SETTA", "FAKE_TOA", "FAKE_RSSI", "FAKE_CI", "FAKE_DROP", "FAKE_TRXC_DELAY"}
        if verb in known:
            # known verb, wrong argument count or non-numeric argument: status not fixed by the property
            return (None, [], False)
        return ok(0)      # unknown verbs are acknowledged with 0

    def power(self, t, on):
        targets = [t] + (t.children if (t.child_mgt and t.idx == 0) else [])
        discarded = []
        for x in targets:
            x.running = on
            if not on:
                discarded += [(x, b) for b in x.queue]
                x.queue = []
                x.fh = None
        if t.has_clck:
            if t.running and t not in self.clock_links:
                self.clock_links.append(t)
            elif not t.running and t in self.clock_links:
                self.clock_links.remove(t)
            self.clock_running = len(self.clock_links) > 0
        return discarded

    # ----------------------------------------------------------- data plane
    def arrive(self, i, burst):
        """a syntactically valid L1->TRX datagram reaches transceiver i.
        burst: dict(ver, fn, tn, pwr, bits).  Returns True if it is accepted (queued)."""
        t = self.trx[i]
        if burst["ver"] != t.ver or not t.running:
            return False
        b = dict(burst)
        b["id"] = self.next_id
        self.next_id += 1
        t.queue.append(b)
        return True

    @staticmethod
    def passed(clock_fn, fn):
        """burst frame already passed when the tick for clock_fn runs (modular)"""
        d = (clock_fn - fn) % HYPERFRAME
        return 0 < d < HYPERFRAME // 2

    def tick(self, fn):
        """returns (emitted, stale): lists of (sender index, burst)"""
        emitted, stale = [], []
        for i, t in enumerate(self.trx):
            if not t.running:
                continue
            keep = []
            for b in t.queue:
                if b["fn"] == fn:
                    emitted.append((i, b))
                elif self.passed(fn, b["fn"]):
                    stale.append((i, b))
                else:
                    keep.append(b)
            t.queue = keep
        return emitted, stale

    def forward(self, si, b):
        """expected observation at every transceiver's L1 for burst b sent by si.
        returns {recipient index: Expect}"""
        s = self.trx[si]
        out = {}
        fn = b["fn"]
        txf = s.freq("tx", fn)
        for ri, r in enumerate(self.trx):
            if ri == si or not r.running:
                out[ri] = Expect("nothing")
                continue
            rxf = r.freq("rx", fn)
            if s.dirty or r.dirty or b.get("odd"):
                out[ri] = Expect("unspecified")
                continue
            if txf is None or rxf is None:
                out[ri] = Expect("unspecified")       # untuned but running (child powered by its parent)
                continue
            if rxf != txf:
                out[ri] = Expect("nothing")
                continue
            out[ri] = self.deliver(s, r, b)
        return out

    def deliver(self, s, r, b):
        fn = b["fn"]
        suppressed = None
        if s.muted or r.muted:
            suppressed = True
            # whether a muted burst also consumes drop budget is not specified: keep both
            if fn % r.drop_period == 0:
                r.drop = r.drop | {d - 1 for d in r.drop if d > 0}
        else:
            if fn % r.drop_period == 0:
                can_drop = any(d > 0 for d in r.drop)
                can_pass = any(d == 0 for d in r.drop)
                if can_drop and can_pass:
                    return Expect("ambiguous-drop", s=s, r=r, b=b)
                if can_drop:
                    r.drop = {d - 1 for d in r.drop if d > 0}
                    suppressed = True
        if suppressed:
            if r.ver == 0:
                return Expect("nothing")
            return Expect("nope", ver=r.ver, fn=fn, tn=b["tn"])
        return self.burst_expect(s, r, b)

    def burst_expect(self, s, r, b):
        bits = bytes(b["bits"])
        e = Expect("burst", ver=r.ver, fn=b["fn"], tn=b["tn"], soft=[-127 if x else 127 for x in bits])
        if r.fake_rssi:
            e.rssi = (r.rssi_base - r.rssi_thr, r.rssi_base + r.rssi_thr)
        else:
            v = NOMINAL_TX_POWER - s.att - b["pwr"] - PATH_LOSS
            e.rssi = (v, v)
        e.toa = (r.toa_base - r.toa_thr - 256 * s.ta, r.toa_base + r.toa_thr - 256 * s.ta)
        e.ci = (r.ci_base - r.ci_thr, r.ci_base + r.ci_thr)
        e.mod = "GMSK" if len(bits) == 148 else "8PSK"
        e.tsc = tsc_candidates(bits) if len(bits) == 148 else set()
        # protocol ranges (C13): a value outside them must not be sent at all
        rng = [("rssi", e.rssi, -120, -47), ("toa", e.toa, -32768, 32767)]
        if r.ver >= 1:
            rng.append(("ci", e.ci, -1280, 1280))
        all_in = all(lo >= mn and hi <= mx for _, (lo, hi), mn, mx in rng)
        all_out = any(hi < mn or lo > mx for _, (lo, hi), mn, mx in rng)
        e.validity = "valid" if all_in else ("invalid" if all_out else "depends")
        return e

    def resolve_ambiguous(self, e, observed_suppressed):
        """after seeing what happened to an ambiguous-drop burst, prune the set"""
        r = e.r
        if observed_suppressed:
            r.drop = {d - 1 for d in r.drop if d > 0}
        else:
            r.drop = {d for d in r.drop if d == 0}
