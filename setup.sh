#!/bin/sh
# Offline setup: make sure hypothesis is importable from /venv (it normally is);
# everything else the checks need is built by the checks themselves from /repo.
set -e
if ! /venv/bin/python -c "import hypothesis" 2>/dev/null; then
    /venv/bin/pip install --no-index --find-links /opt/veriftools/wheels hypothesis
fi
/venv/bin/python -c "import hypothesis, sys; print('hypothesis', hypothesis.__version__, 'python', sys.version.split()[0])"
command -v clang >/dev/null && clang --version | head -1
mkdir -p "$(dirname "$0")/build" "$(dirname "$0")/evidence"
