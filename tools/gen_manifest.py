#!/usr/bin/env python3
# Regenerates MANIFEST.json from the table below (one place to edit).
import json, os
VERIF = os.path.dirname(os.path.dirname(os.path.abspath(__file__)))

# id -> (category, technique, level text, level note, design ref)
CHECKS = {
 "C01": ("exploration", "Hypothesis round-trip + metamorphic (legacy padding) over constructive message generators; complete enumeration of soft-bit values, MTS combinations, FN boundaries; Hypothesis message sequences and object-life histories (one object changed in place between encodings)",
         "Generated-input search: every generated valid message must decode from its own encoding to equal fields; finite sub-domains (256 soft-bit octets, all MTS octets, boundary FNs x TN) are enumerated completely. Not a proof over 2^148 burst contents.",
         "Trusts the harness's field comparison and message builders; symmetric codec errors are C04's job.", "3/C01"),
}
CHECKS.update({
 "C07": ("exploration", "complete enumeration of the reduced hopping domain against a spec-derived reference (firmware via ASan/UBSan driver around unmodified rfch.c; Python resolve), plus Hypothesis three-way differential python/firmware/spec",
         "Finite-domain enumeration: thorough enumerates HSN x T1R x T2 x T3 x N completely at MAIO in {0,1,N-1,63} for the firmware (1.4e9 calls) and HSN 0 over every FN; quick a seed-rotated quarter of T1R at two MAIO values. Python side enumerates all (HSN,T2,T3,N) with rotating T1/MAIO. MAIO values other than the four are sampled by Hypothesis only.",
         "Trusts refs/ref_hop.py + the in-driver reference (spec text, div/mod), RNTABLE copy, x86-64 clang build of the firmware.", "3/C07"),
 "C13": ("exploration", "complete single-field and pairwise boundary lattice over 13 baselines against an independent range predicate, plus Hypothesis random combinations; every point also on objects with a past (parsed-then-re-sent, encoded-then-changed-in-place); send path observed on an in-memory UDP double",
         "Enumerates every single and every pair of fields at boundary candidates (on, next to, far from each bound, None) for every class/version/modulation/NOPE baseline; validate(), gen_msg() and DATAInterface.send_msg() must all agree with refs/ref_valid. Triple-and-higher interactions are sampled only.",
         "Trusts refs/ref_valid.py (transcribed from the property's range list) and the FakeNet socket double.", "3/C13"),
 "C15": ("exploration", "Hypothesis histories (append in chunks) with model list oracle; all skip/count pairs; generated read / append sequences on one reader (appends also through a second handle); crash-point enumeration of truncation offsets; constructed files with a record header at every offset 2^k-3..2^k+1",
         "Generated capture files compared with the stored list through every read API, every (skip,count) pair, every index, and every truncation offset for files up to 900 octets (header/tail neighbourhoods + sampled body offsets beyond).",
         "Crash = prefix of the byte stream; record layout recomputed with refs/ref_trxd.", "3/C15"),
 "C19": ("exploration", "complete enumeration of all 2715648 frame numbers x 63 deltas (incl. 0) through the unmodified C (gsm_utils.c, firmware sync.c) and Python helpers against a div/mod reference; full-hyperframe +1 walk; generated mixed-delta histories on one running time",
         "Exhaustive over the finite domain named in the property (every FN, every listed delta, the whole carry chain including the wrap), C under ASan/UBSan; Python compared with the reference and with the C output for every FN.",
         "x86-64 clang build; sync.c linked with never-executed weak hardware stubs; reference decomposition is 4 lines of div/mod.", "3/C19"),
})
CHECKS.update({
 "C02": ("exploration", "Hypothesis-generated application configurations + TRXC scripts + transmissions against a reference routing model (spec hopping), observed on an in-memory UDP double",
         "Model-based generated-input search over configurations of 2..6 transceivers (children, extra parents, hopping coordinated as in a real cell, versions, mute) and bursts; every tick's datagram set must equal the model's recipient set exactly (both directions: nothing missing, nothing extra).",
         "Trusts refs/trx_model.py + refs/ref_hop.py, FakeNet, harness-delivered ticks; untuned-but-running transceivers are not asserted.", "3/C02"),
 "C03": ("exploration", "Hypothesis operation histories with per-burst outcome accounting (model), plus exhaustive enumeration of thread schedules (<=1/<=2 pre-emptions, line/opcode granularity) of socket-op vs clock-tick by a settrace interleaving explorer with a cooperative lock",
         "Histories: every accepted burst must end in exactly one of transmitted-in-its-own-tick / stale report / discarded by POWEROFF, across wraps. Schedules: for each generated scenario ALL schedules within the pre-emption bound are executed on the real code with real threads; bounded by pre-emption count and by line/bytecode granularity.",
         "CPython-level atomicity of single bytecodes / list.append; lock replaced by an interface-compatible cooperative lock; message codec frames are not pre-emption points (thread-local data).", "3/C03"),
 "C04": ("exploration", "Hypothesis differential: Python encoder/decoder vs independent layout model; object-life histories (one message object changed in place between encodings); trxcon's unmodified trx_if.c (ASan/UBSan driver on socketpairs, two instances used alternately) vs Python in both directions",
         "Generated valid messages must encode to exactly the layout model's octets; every accepted datagram (valid, mutated, glued) must be interpreted per the layout; v0 bursts cross the language boundary both ways and must keep fn/tn/rssi/toa/bits.",
         "Trusts refs/ref_trxd.py and the libosmocore shim used to host trx_if.c.", "3/C04"),
 "C05": ("exploration", "Hypothesis command histories against TrxModel (framing, status, results, effects incl. anchored state), plus trxcon round trip through unmodified trx_if.c",
         "Model-based search over sequences of every verb/arg-count/boundary value to any transceiver from any source address; reply framing, status, results and the state effect are compared after every step; each command trxcon can emit is captured from the C code, answered by FakeTRX and fed back into trxcon's parser.",
         "Trusts refs/trx_model.py (written from the docstrings/property text); statuses the property does not fix are not asserted.", "3/C05"),
 "C10": ("exploration", "Hypothesis histories of simulation settings + typed/arbitrary bursts; datagram at the recipient decoded by the independent layout model and compared with the metadata model",
         "Generated-input search over sender/recipient settings and burst contents (toolkit generator, harness-assembled from own training-sequence tables, arbitrary bits); bits, version, padding, RSSI/ToA/C-I windows, modulation and TSC are asserted per datagram.",
         "Random windows asserted by membership only; AB TS3..7 / SB TS1..3 tables are a snapshot of the pinned tree.", "3/C10"),
 "C12": ("exploration", "Hypothesis histories of power/tuning commands, clock ticks and bursts over generated parent/child configurations against TrxModel; start-up socket plan checked on FakeNet",
         "Model-based search: running state of every transceiver, hopping reset, queue discard, clock-indication destinations, generator alive-ness and the bound-socket set are compared after every step.",
         "Clock thread parked; ticks delivered by calling the generator at indication frames.", "3/C12"),
 "C18": ("exploration", "Hypothesis histories of FAKE_DROP/RFMUTE/SETFORMAT interleaved with burst streams against a counter model (set-valued where the property is silent)",
         "Model-based search; each burst must yield exactly burst / NOPE (v1, noise constants) / nothing (v0) per the counter, period filter and mute flags; invalid FAKE_DROP must be refused without state change.",
         "Whether muted bursts consume drop budget is unspecified: both accepted.", "3/C18"),
})
CHECKS.update({
 "C09": ("exploration", "Hypothesis-generated handler-duration patterns / start frames / periods / link sets (changed in place at generated ticks) run through the real worker loop under a virtual monotonic clock; absolute-deadline reference model; one injected-fault scenario with real threads (handler blocked around stop()/start())",
         "The harness owns time (monotonic_ns, Event.wait, Thread are doubles), so tick times are exact integers: every tick's frame number, time, indication payload/recipient/ordering is compared with the model over generated duration patterns incl. overruns, wraps and restarts.",
         "Sending takes no virtual time; P may be 4 614 999..4 615 001 ns but must be constant within a run.", "3/C09"),
 "C14": ("exploration", "Hypothesis raw-input and structured-mutation fuzzing of every receive path ('only ValueError / nothing escapes'), hostile-input sessions with a recovery script checked against TrxModel, an exhaustive boundary lattice of numeric TRXC arguments, coverage-guided atheris campaigns on byte-level targets, and Hypothesis action sequences + a libFuzzer target on the unmodified trx_if.c under ASan/UBSan",
         "Generated-input search over byte strings and structured mutations at every entry point, and over where in a valid session the hostile input arrives (each followed by traffic through the clock path and a strictly checked recovery); the trxcon side runs under sanitizers so out-of-bounds access is a visible failure.",
         "No MSan (stale-but-in-bounds reads are invisible); settings after hostile control input are unknown until the recovery script has run.", "3/C14"),
 "C16": ("exploration", "Hypothesis-generated protocol definitions (programs) instantiated as real codec objects and interpreted by an independent layout interpreter; round-trip, canonical re-encoding, length-exactness, negative tests and re-encoding after an in-place nested change per definition",
         "Recursive generator of definition trees (depth <= 3) with encodable-by-construction values; encoder compared octet for octet with refs/codec_ref, decoder by round trip, plus every short prefix, trailing octets, fixed-value mismatch, unencodable values and over-wide bit-field values.",
         "Only compositions demonstrated by the repository's own users are generated (flexible fields at the tail, exact bit-field partitions).", "3/C16"),
 "C17": ("exploration", "Hypothesis value dicts per PDU class against a hand-transcribed documented layout (v0/v1/v2 incl. batched sub-PDUs), reserved-bit noise, wrong-version rejection, PDU sequences, object-life histories (in-place changes incl. inside batched sub-PDUs), input-buffer aliasing, and differential against the message codec's datagrams",
         "Generated-input search over all defined modulation codes, NOPE, 0..8 batched sub-PDUs; encoder vs layout octet for octet, round trip, reserved bits, version nibble; every valid v0/v1 datagram of data_msg (legacy on/off) must be accepted with identical fields.",
         "Reserved modulation codes (0b0111, 0b111x) are not asserted; v2 layout reference is a transcription of the TRXDv2 field order.", "3/C17"),
})
CHECKS.update({
 "C06": ("exploration", "Hypothesis operation histories against an ASan/UBSan driver around the unmodified sercomm.c (host and target builds) with a queue/priority model and an independent HDLC de-framer; over-long frame and noise injection",
         "Model-based generated-input search: the pulled octet stream is parsed by refs/ref_hdlc (wire invariants), matched against per-DLCI FIFOs and the priority rule, and deliveries are aligned with the frames fed to the receiver allowing at most the one frame after an over-long frame to be missing; sanitizers make memory corruption visible.",
         "x86-64 clang build, IRQ masking no-op; noise only while the receiver is in sync; DLCI 126/128 never registered.", "3/C06"),
 "C08": ("exploration", "Hypothesis operation histories against an ASan/UBSan driver around the unmodified tdma_sched.c compared step by step with a 25x8 ring model",
         "Model-based generated-input search over schedule / schedule_set / advance / execute / reset sequences from any ring position; executed callbacks (multiset, parameters, priority order), return codes and overflow behaviour compared after every operation.",
         "Callbacks succeed and do not re-enter; items of an overflowed set / of the current bucket at reset get may-or-may-not latitude.", "3/C08"),
 "C11": ("exploration", "complete enumeration of all tasks x all frames of a 51x26x8 cycle (firmware, recording stub) and all (combination, timeslot) lookups x table rows (trxcon, ASan) compared through a fixed task<->channel correspondence table; continuous multi-task walks across the hyperframe wrap; generated trxcon lookup histories; firmware built twice (signed / unsigned plain char)",
         "Exhaustive over the finite domain: every firmware trigger and every trxcon table row is visited; block starts / per-frame ownership compared per logical channel and direction; burst-id cyclicity, lchan_mask containment, slotmask/config validity and out-of-table reads (ASan) checked for every layout.",
         "The correspondence table and the one-frame DSP latency are harness knowledge; x86-64 clang build; newer libosmocore enumerators from the shim.", "3/C11"),
 "C20": ("exploration", "Hypothesis-generated cell allocations and bitmaps (lengths 0..255, all lengths > 8 enumerated; earlier decode on the same frequency array) against the function sliced verbatim from sysinfo.c in an ASan/UBSan driver with exact-size heap buffers; reference decoder from TS 44.018 10.5.2.21",
         "Generated-input search over CA subsets (size 0..64, with/without ARFCN 0), bitmap lengths 0..9 and biased contents; result list, length, return code, HOPP flags and untouched outputs compared with refs/ref_ma; any out-of-bounds access is a sanitizer report.",
         "Only gsm48_decode_mobile_alloc() is compiled (sysinfo.c needs libosmo-gprs headers); vla-bound check off.", "3/C20"),
})
NOT_YET = {}

def main():
    props = [json.loads(l) for l in open(os.path.join(VERIF, "properties.jsonl"))]
    checks = []
    na = []
    for p in props:
        pid = p["id"]
        if pid in CHECKS:
            cat, tech, text, note, ref = CHECKS[pid]
            checks.append({
                "property_id": pid,
                "quick_cmd": "./vcheck %s --tier quick" % pid,
                "thorough_cmd": "./vcheck %s --tier thorough" % pid,
                "evidence_file": "/verif/evidence/%s.json" % pid,
                "replay_cmd_template": "./vcheck %s --replay {path}" % pid,
                "engine": "vcheck",
                "level_claimed": {"category": cat, "text": text, "design_ref": "DESIGN.md section " + ref},
                "level_note": note,
                "technique": tech,
            })
        else:
            na.append({"property_id": pid, "reason": NOT_YET.get(pid, "check not built yet (work in progress, see DESIGN.md section 3/%s for the plan)" % pid)})
    m = {
        "version": 1,
        "setup_cmd": "./setup.sh",
        "hooks": {
            "guard": "OSMOCOM_BB_VERIF",
            "enable": "no source hooks are needed: checks substitute module attributes (udp_link.socket, clck_gen.time/threading) and #include the C files into driver translation units; the guard variable is declared but unused",
            "baseline_off_cmd": "cd /repo && /venv/bin/python -m pytest -ra -q -p no:cacheprovider --timeout=900 --continue-on-collection-errors",
            "source_commits": [],
            "add_only": True,
        },
        "engines": [{"name": "vcheck", "path": "/verif/vcheck", "serves_properties": [c["property_id"] for c in checks],
                     "kind_free_text": "Hypothesis-driven property checks (stateless + history generators), exhaustive enumeration of finite domains, clang ASan/UBSan drivers around unmodified C sources, interleaving explorer for C03"}],
        "checks": checks,
        "not_applicable": na,
        "notes": "All checks: exit 0 property held / exit 1 + VIOLATION line / exit 2 harness error. VERIF_SEED and VERIF_TIER honoured. known_findings.json lists fixed defects (suppresses nothing).",
    }
    json.dump(m, open(os.path.join(VERIF, "MANIFEST.json"), "w"), indent=1)
    print("checks:", len(checks), "not_applicable:", len(na))
main()
