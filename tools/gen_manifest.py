#!/usr/bin/env python3
# Regenerates MANIFEST.json from the table below (one place to edit).
import json, os
VERIF = os.path.dirname(os.path.dirname(os.path.abspath(__file__)))

# id -> (category, technique, level text, level note, design ref)
CHECKS = {
 "C01": ("exploration", "Hypothesis round-trip + metamorphic (legacy padding) over constructive message generators; complete enumeration of soft-bit values, MTS combinations, FN boundaries",
         "Generated-input search: every generated valid message must decode from its own encoding to equal fields; finite sub-domains (256 soft-bit octets, all MTS octets, boundary FNs x TN) are enumerated completely. Not a proof over 2^148 burst contents.",
         "Trusts the harness's field comparison and message builders; symmetric codec errors are C04's job.", "3/C01"),
}
CHECKS.update({
 "C07": ("exploration", "complete enumeration of the reduced hopping domain against a spec-derived reference (firmware via ASan/UBSan driver around unmodified rfch.c; Python resolve), plus Hypothesis three-way differential python/firmware/spec",
         "Finite-domain enumeration: thorough enumerates HSN x T1R x T2 x T3 x N completely at MAIO in {0,1,N-1,63} for the firmware (1.4e9 calls) and HSN 0 over every FN; quick a seed-rotated quarter of T1R at two MAIO values. Python side enumerates all (HSN,T2,T3,N) with rotating T1/MAIO. MAIO values other than the four are sampled by Hypothesis only.",
         "Trusts refs/ref_hop.py + the in-driver reference (spec text, div/mod), RNTABLE copy, x86-64 clang build of the firmware.", "3/C07"),
 "C13": ("exploration", "complete single-field and pairwise boundary lattice over 13 baselines against an independent range predicate, plus Hypothesis random combinations; send path observed on an in-memory UDP double",
         "Enumerates every single and every pair of fields at boundary candidates (on, next to, far from each bound, None) for every class/version/modulation/NOPE baseline; validate(), gen_msg() and DATAInterface.send_msg() must all agree with refs/ref_valid. Triple-and-higher interactions are sampled only.",
         "Trusts refs/ref_valid.py (transcribed from the property's range list) and the FakeNet socket double.", "3/C13"),
 "C15": ("exploration", "Hypothesis histories (append in chunks) with model list oracle; all skip/count pairs; crash-point enumeration of truncation offsets",
         "Generated capture files compared with the stored list through every read API, every (skip,count) pair, every index, and every truncation offset for files up to 900 octets (header/tail neighbourhoods + sampled body offsets beyond).",
         "Crash = prefix of the byte stream; record layout recomputed with refs/ref_trxd.", "3/C15"),
 "C19": ("exploration", "complete enumeration of all 2715648 frame numbers x 62 deltas through the unmodified C (gsm_utils.c, firmware sync.c) and Python helpers against a div/mod reference; full-hyperframe +1 walk",
         "Exhaustive over the finite domain named in the property (every FN, every listed delta, the whole carry chain including the wrap), C under ASan/UBSan; Python compared with the reference and with the C output for every FN.",
         "x86-64 clang build; sync.c linked with never-executed weak hardware stubs; reference decomposition is 4 lines of div/mod.", "3/C19"),
})
NOT_YET = {}

def main():
    props = [json.loads(l) for l in open(os.path.join(VERIF, "properties.jsonl"))]
    checks = []
    na = []
    for p in props:
        pid = p["id"]
        if pid in CHECKS:
            cat, tech, text, note, ref = CHECKS[pid]
            checks.append({
                "property_id": pid,
                "quick_cmd": "./vcheck %s --tier quick" % pid,
                "thorough_cmd": "./vcheck %s --tier thorough" % pid,
                "evidence_file": "/verif/evidence/%s.json" % pid,
                "replay_cmd_template": "./vcheck %s --replay {path}" % pid,
                "engine": "vcheck",
                "level_claimed": {"category": cat, "text": text, "design_ref": "DESIGN.md section " + ref},
                "level_note": note,
                "technique": tech,
            })
        else:
            na.append({"property_id": pid, "reason": NOT_YET.get(pid, "check not built yet (work in progress, see DESIGN.md section 3/%s for the plan)" % pid)})
    m = {
        "version": 1,
        "setup_cmd": "./setup.sh",
        "hooks": {
            "guard": "OSMOCOM_BB_VERIF",
            "enable": "no source hooks are needed: checks substitute module attributes (udp_link.socket, clck_gen.time/threading) and #include the C files into driver translation units; the guard variable is declared but unused",
            "baseline_off_cmd": "cd /repo && /venv/bin/python -m pytest -ra -q -p no:cacheprovider --timeout=900 --continue-on-collection-errors",
            "source_commits": [],
            "add_only": True,
        },
        "engines": [{"name": "vcheck", "path": "/verif/vcheck", "serves_properties": [c["property_id"] for c in checks],
                     "kind_free_text": "Hypothesis-driven property checks (stateless + history generators), exhaustive enumeration of finite domains, clang ASan/UBSan drivers around unmodified C sources, interleaving explorer for C03"}],
        "checks": checks,
        "not_applicable": na,
        "notes": "All checks: exit 0 property held / exit 1 + VIOLATION line / exit 2 harness error. VERIF_SEED and VERIF_TIER honoured. known_findings.json lists fixed defects (suppresses nothing).",
    }
    json.dump(m, open(os.path.join(VERIF, "MANIFEST.json"), "w"), indent=1)
    print("checks:", len(checks), "not_applicable:", len(na))
main()
