#!/usr/bin/env python3
# Regenerates MANIFEST.json from the table below (one place to edit).
import json, os
VERIF = os.path.dirname(os.path.dirname(os.path.abspath(__file__)))

# id -> (category, technique, level text, level note, design ref)
CHECKS = {
 "C01": ("exploration", "Hypothesis round-trip + metamorphic (legacy padding) over constructive message generators; complete enumeration of soft-bit values, MTS combinations, FN boundaries",
         "Generated-input search: every generated valid message must decode from its own encoding to equal fields; finite sub-domains (256 soft-bit octets, all MTS octets, boundary FNs x TN) are enumerated completely. Not a proof over 2^148 burst contents.",
         "Trusts the harness's field comparison and message builders; symmetric codec errors are C04's job.", "3/C01"),
}
NOT_YET = {}

def main():
    props = [json.loads(l) for l in open(os.path.join(VERIF, "properties.jsonl"))]
    checks = []
    na = []
    for p in props:
        pid = p["id"]
        if pid in CHECKS:
            cat, tech, text, note, ref = CHECKS[pid]
            checks.append({
                "property_id": pid,
                "quick_cmd": "./vcheck %s --tier quick" % pid,
                "thorough_cmd": "./vcheck %s --tier thorough" % pid,
                "evidence_file": "/verif/evidence/%s.json" % pid,
                "replay_cmd_template": "./vcheck %s --replay {path}" % pid,
                "engine": "vcheck",
                "level_claimed": {"category": cat, "text": text, "design_ref": "DESIGN.md section " + ref},
                "level_note": note,
                "technique": tech,
            })
        else:
            na.append({"property_id": pid, "reason": NOT_YET.get(pid, "check not built yet (work in progress, see DESIGN.md section 3/%s for the plan)" % pid)})
    m = {
        "version": 1,
        "setup_cmd": "./setup.sh",
        "hooks": {
            "guard": "OSMOCOM_BB_VERIF",
            "enable": "no source hooks are needed: checks substitute module attributes (udp_link.socket, clck_gen.time/threading) and #include the C files into driver translation units; the guard variable is declared but unused",
            "baseline_off_cmd": "cd /repo && /venv/bin/python -m pytest -ra -q -p no:cacheprovider --timeout=900 --continue-on-collection-errors",
            "source_commits": [],
            "add_only": True,
        },
        "engines": [{"name": "vcheck", "path": "/verif/vcheck", "serves_properties": [c["property_id"] for c in checks],
                     "kind_free_text": "Hypothesis-driven property checks (stateless + history generators), exhaustive enumeration of finite domains, clang ASan/UBSan drivers around unmodified C sources, interleaving explorer for C03"}],
        "checks": checks,
        "not_applicable": na,
        "notes": "All checks: exit 0 property held / exit 1 + VIOLATION line / exit 2 harness error. VERIF_SEED and VERIF_TIER honoured. known_findings.json lists fixed defects (suppresses nothing).",
    }
    json.dump(m, open(os.path.join(VERIF, "MANIFEST.json"), "w"), indent=1)
    print("checks:", len(checks), "not_applicable:", len(na))
main()
