#!/usr/bin/env python3
# Sensitivity protocol (DESIGN.md section 7): apply each planted defect of
# tools/mutants/<ID>.json to a scratch copy of /repo (never to /repo itself),
# run the quick check against the copy via VERIF_REPO_ROOT, expect exit 1.
#
# usage: tools/kill.py C01 [C02 ...] [--tier quick] [--only NAME] [-j 8]
import argparse
import json
import os
import shutil
import subprocess
import sys
import time
from concurrent.futures import ThreadPoolExecutor

VERIF = os.path.dirname(os.path.dirname(os.path.abspath(__file__)))
SCRATCH = "/tmp/vmut/%d" % os.getpid()


def run_one(pid, mut, tier, idx):
    d = os.path.join(SCRATCH, "%s-%d-%d" % (pid, os.getpid(), idx))
    shutil.rmtree(d, ignore_errors=True)
    subprocess.check_call(["rsync", "-a", "--exclude=.git", "/repo/", d + "/"])
    try:
        edits = mut["edits"] if "edits" in mut else [mut]
        for e in edits:
            p = os.path.join(d, e["file"])
            s = open(p).read()
            n = s.count(e["old"])
            want = e.get("count", 1)
            if n != want:
                return (mut["name"], "BAD-MUTANT(%d matches of %r)" % (n, e["old"][:40]), 0)
            s = s.replace(e["old"], e["new"])
            open(p, "w").write(s)
        env = dict(os.environ, VERIF_REPO_ROOT=d, VERIF_BUILD_TAG="mut%d-%d" % (os.getpid(), idx),
                   VERIF_REPLAY_DIR=os.path.join(d, "_replays"))
        t0 = time.time()
        r = subprocess.run([os.path.join(VERIF, "vcheck"), pid, "--tier", tier, "--no-evidence"],
                           env=env, capture_output=True, text=True, timeout=3600)
        dt = time.time() - t0
        sigs = [l.strip() for l in r.stdout.splitlines() if l.startswith("  ")]
        verdict = {0: "SURVIVED", 1: "killed", 2: "HARNESS-ERROR"}.get(r.returncode, "rc=%d" % r.returncode)
        detail = (sigs[0][:150] if sigs else "") if r.returncode == 1 else (r.stderr.strip().splitlines()[-1][:200] if r.stderr.strip() and r.returncode != 0 else "")
        return (mut["name"], verdict, dt, detail)
    finally:
        shutil.rmtree(d, ignore_errors=True)
        shutil.rmtree(os.path.join(VERIF, "build", pid + "-mut%d-%d" % (os.getpid(), idx)), ignore_errors=True)


def main():
    ap = argparse.ArgumentParser()
    ap.add_argument("props", nargs="+")
    ap.add_argument("--tier", default="quick")
    ap.add_argument("--only", default=None)
    ap.add_argument("-j", type=int, default=8)
    a = ap.parse_args()
    os.makedirs(SCRATCH, exist_ok=True)
    rc = 0
    for pid in a.props:
        muts = json.load(open(os.path.join(VERIF, "tools", "mutants", pid + ".json")))
        if a.only:
            muts = [m for m in muts if a.only in m["name"]]
        with ThreadPoolExecutor(a.j) as ex:
            res = list(ex.map(lambda im: run_one(pid, im[1], a.tier, im[0]), enumerate(muts)))
        for r in res:
            print("%s %-44s %-14s %6.1fs  %s" % (pid, r[0], r[1], r[2], r[3] if len(r) > 3 else ""))
            if r[1] != "killed":
                rc = 1
    shutil.rmtree(SCRATCH, ignore_errors=True)
    return rc


sys.exit(main())
