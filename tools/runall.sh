#!/bin/sh
# tools/runall.sh [tier] [seed] [jobs]: run every registered check, print one status line each
TIER=${1:-quick}; SEED=${2:-1}; JOBS=${3:-4}
cd "$(dirname "$0")/.."
mkdir -p build/logs
for i in 01 02 03 04 05 06 07 08 09 10 11 12 13 14 15 16 17 18 19 20; do echo C$i; done | \
  xargs -P "$JOBS" -I{} sh -c 's=$(date +%s); VERIF_SEED='"$SEED"' ./vcheck {} --tier '"$TIER"' > build/logs/{}.'"$TIER.$SEED"'.log 2>&1; rc=$?; echo "{} rc=$rc $(( $(date +%s) - s ))s $(grep -c VIOLATION build/logs/{}.'"$TIER.$SEED"'.log) violations"'
