#!/usr/bin/env python3
# Regression of the seeded-change matrix: apply every stored seeded/<ID>-<variant>/patch.diff to a scratch copy of
# /repo (never to /repo itself; VERIF_REPO_ROOT points the checks at the copy), run the quick check(s) that are
# recorded as detecting it (meta.json: detected_by) and expect exit 1.  Writes seeded/SEED_MATRIX.txt.
#
# usage: tools/seedall.py [-j 8] [--only C04] [--seed 1]
import argparse
import glob
import json
import os
import shutil
import subprocess
import sys
import time
from concurrent.futures import ThreadPoolExecutor

VERIF = os.path.dirname(os.path.dirname(os.path.abspath(__file__)))
SCRATCH = "/tmp/vseed/%d" % os.getpid()


def run_one(idx, d, seed):
    name = os.path.basename(d)
    meta = json.load(open(os.path.join(d, "meta.json")))
    checks = meta.get("detected_by") or [meta["property"]]
    out = []
    for chk in checks:
        w = os.path.join(SCRATCH, "%s-%s-%d" % (name, chk, os.getpid()))
        shutil.rmtree(w, ignore_errors=True)
        subprocess.check_call(["rsync", "-a", "--exclude=.git", "/repo/", w + "/"])
        tag = "seed%d-%d" % (os.getpid(), idx)
        try:
            r = subprocess.run(["patch", "-p1", "-s", "-d", w, "-i", os.path.join(d, "patch.diff")], capture_output=True, text=True)
            if r.returncode != 0:
                out.append((name, chk, "PATCH-FAILED", 0, (r.stdout + r.stderr).strip()[:150]))
                continue
            env = dict(os.environ, VERIF_REPO_ROOT=w, VERIF_BUILD_TAG=tag, VERIF_REPLAY_DIR=os.path.join(w, "_replays"), VERIF_SEED=str(seed))
            t0 = time.time()
            r = subprocess.run([os.path.join(VERIF, "vcheck"), chk, "--tier", "quick", "--no-evidence"], env=env, capture_output=True, text=True, timeout=7200)
            dt = time.time() - t0
            sigs = [l.strip() for l in r.stdout.splitlines() if l.startswith("  ")]
            verdict = {0: "MISSED", 1: "detected", 2: "HARNESS-ERROR"}.get(r.returncode, "rc=%d" % r.returncode)
            out.append((name, chk, verdict, dt, sigs[0][:140] if sigs else (r.stderr.strip().splitlines()[-1][:140] if r.stderr.strip() and r.returncode else "")))
        finally:
            shutil.rmtree(w, ignore_errors=True)
            shutil.rmtree(os.path.join(VERIF, "build", "%s-%s" % (chk, tag)), ignore_errors=True)
    return out


def main():
    ap = argparse.ArgumentParser()
    ap.add_argument("-j", type=int, default=8)
    ap.add_argument("--only", default=None)
    ap.add_argument("--seed", type=int, default=1)
    a = ap.parse_args()
    dirs = sorted(d for d in glob.glob(os.path.join(VERIF, "seeded", "C*")) if os.path.isdir(d) and (not a.only or a.only in os.path.basename(d)))
    os.makedirs(SCRATCH, exist_ok=True)
    with ThreadPoolExecutor(a.j) as ex:
        res = list(ex.map(lambda x: run_one(x[0], x[1], a.seed), enumerate(dirs)))
    lines = []
    bad = 0
    for rs in res:
        for (name, chk, verdict, dt, detail) in rs:
            lines.append("%-8s %-4s %-13s %6.1fs  %s" % (name, chk, verdict, dt, detail))
            bad += verdict != "detected"
    print("\n".join(lines))
    print("%d seeded changes, %d (change, check) pairs, %d not detected" % (len(dirs), len(lines), bad))
    if not a.only:
        with open(os.path.join(VERIF, "seeded", "SEED_MATRIX.txt"), "w") as f:
            f.write("# tools/seedall.py --seed %d: every stored seeded change against the quick tier of the checks recorded as detecting it\n" % a.seed)
            f.write("\n".join(lines) + "\n")
    shutil.rmtree(SCRATCH, ignore_errors=True)
    return 1 if bad else 0


sys.exit(main())
