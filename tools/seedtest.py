#!/usr/bin/env python3
# Confirms a seeded change written by an independent sub-agent and runs the registered checks against it.
#   tools/seedtest.py C05 A [--also C12,C14] [--tier quick] [--keep]
# Steps: (1) in the scratch worktree /tmp/seed/wt_<ID>: apply the patch, run the pinned test suite, run the agent's
# demonstration (must exit 1), undo, run the demonstration again (must exit 0); (2) apply the patch to /repo
# (git -C /repo apply), run the check(s), undo straight afterwards (git -C /repo checkout -- .);
# (3) with --keep store patch.diff, the demo and meta.json under /verif/seeded/<ID>-<A|B>/.
import argparse
import glob
import json
import os
import shutil
import subprocess
import sys
import time

VERIF = os.path.dirname(os.path.dirname(os.path.abspath(__file__)))


def sh(cmd, cwd=None, timeout=3600):
    r = subprocess.run(cmd, shell=True, cwd=cwd, capture_output=True, text=True, timeout=timeout)
    return r.returncode, r.stdout + r.stderr


def main():
    ap = argparse.ArgumentParser()
    ap.add_argument("pid")
    ap.add_argument("which")
    ap.add_argument("--also", default="")
    ap.add_argument("--tier", default="quick")
    ap.add_argument("--keep", action="store_true")
    ap.add_argument("--needs", default="")
    ap.add_argument("--suffix", default="", help="appended to the directory name under seeded/ (round 2: '2')")
    ap.add_argument("--wt", default=None, help="scratch worktree (default /tmp/seed/wt_<ID>)")
    a = ap.parse_args()
    wt, out = a.wt or "/tmp/seed/wt_%s" % a.pid, "/tmp/seed/out_%s" % a.pid
    patch = os.path.join(out, "patch_%s.diff" % a.which)
    demos = [d for ext in (".py", ".sh") for d in glob.glob(os.path.join(out, "demo_%s%s" % (a.which, ext)))]
    if not os.path.exists(patch) or not demos:
        sys.exit("missing patch or demo in %s" % out)
    demo = demos[0]
    runner = {".py": "/venv/bin/python", ".sh": "sh"}.get(os.path.splitext(demo)[1], "sh")
    meta = {"property": a.pid, "variant": a.which, "ran": []}
    sh("git checkout -- . && git clean -fdq", cwd=wt)
    rc, o = sh("git apply %s" % patch, cwd=wt)
    if rc:
        sys.exit("patch does not apply: " + o)
    rc, o = sh("/venv/bin/python -m pytest -q -p no:cacheprovider --timeout=900 2>&1 | tail -3", cwd=wt)
    tests = o.strip().splitlines()[-1]
    failed = [l for l in o.splitlines() if l.startswith("FAILED")]
    tests_ok = all("test_no_timing_error_accumulated" in l for l in failed)
    meta["test_suite_with_change"] = tests
    rc_with, o_with = sh("%s %s %s" % (runner, demo, wt), cwd=out, timeout=900)
    sh("git checkout -- . && git clean -fdq", cwd=wt)
    rc_without, o_without = sh("%s %s %s" % (runner, demo, wt), cwd=out, timeout=900)
    meta["demo_with_change_rc"] = rc_with
    meta["demo_without_change_rc"] = rc_without
    meta["demo_output_with_change"] = o_with.strip()[-600:]
    confirmed = tests_ok and rc_with == 1 and rc_without == 0
    meta["confirmed"] = confirmed
    print("[%s-%s] tests: %s | demo with=%d without=%d | confirmed=%s" % (a.pid, a.which, tests, rc_with, rc_without, confirmed))
    # ---- against /repo
    rc, o = sh("git -C /repo status --porcelain")
    if o.strip():
        sys.exit("/repo is not clean: " + o)
    results = {}
    try:
        rc, o = sh("git -C /repo apply %s" % patch)
        if rc:
            sys.exit("patch does not apply to /repo: " + o)
        for chk in [a.pid] + [c for c in a.also.split(",") if c]:
            t0 = time.time()
            rc, o = sh("%s/vcheck %s --tier %s --no-evidence" % (VERIF, chk, a.tier), cwd=VERIF, timeout=7200)
            sigs = [l.strip() for l in o.splitlines() if l.startswith("  ")]
            results[chk] = {"rc": rc, "wall_s": round(time.time() - t0, 1), "first_signature": sigs[0][:300] if sigs else ""}
            print("    %s %s rc=%d %.0fs %s" % (chk, a.tier, rc, time.time() - t0, sigs[0][:200] if sigs else ""))
            meta["ran"].append("git -C /repo apply patch.diff; ./vcheck %s --tier %s; git -C /repo checkout -- ." % (chk, a.tier))
    finally:
        sh("git -C /repo checkout -- .")
        shutil.rmtree(os.path.join(VERIF, "replays"), ignore_errors=True)
    rc, o = sh("git -C /repo status --porcelain")
    if o.strip():
        sys.exit("/repo left dirty: " + o)
    meta["checks"] = results
    meta["detected_by"] = [c for c, r in results.items() if r["rc"] == 1]
    if a.needs:
        meta["needs_to_manifest"] = a.needs
    meta["round"] = int(a.suffix) if a.suffix.isdigit() else 1
    if a.keep and confirmed:
        d = os.path.join(VERIF, "seeded", "%s-%s%s" % (a.pid, a.which, a.suffix))
        os.makedirs(d, exist_ok=True)
        shutil.copy(patch, os.path.join(d, "patch.diff"))
        shutil.copy(demo, os.path.join(d, os.path.basename(demo)))
        for extra in glob.glob(os.path.join(out, "*.c")) + glob.glob(os.path.join(out, "*.h")):
            if a.which in os.path.basename(extra) or "harness" in os.path.basename(extra):
                shutil.copy(extra, os.path.join(d, os.path.basename(extra)))
        notes = os.path.join(out, "notes.md")
        if os.path.exists(notes):
            shutil.copy(notes, os.path.join(d, "agent_notes.md"))
        old = {}
        mp = os.path.join(d, "meta.json")
        if os.path.exists(mp):
            old = json.load(open(mp))
            for k in ("needs_to_manifest", "what"):
                if k in old and k not in meta:
                    meta[k] = old[k]
        json.dump(meta, open(mp, "w"), indent=1)


main()
